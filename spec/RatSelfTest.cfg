INIT Init
NEXT Next
