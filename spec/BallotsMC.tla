------------------------------ MODULE BallotsMC ------------------------------
(***************************************************************************)
(* State machine: ballots are added one at a time (types in non-decreasing *)
(* index order, so each multiset of at most MaxBallots ballots is reached  *)
(* exactly once); tallies and assorter sums are maintained incrementally.  *)
(* C02 as invariants.  Emit prints every profile for the driver.           *)
(***************************************************************************)
EXTENDS Ballots, SequencesExt, Json

CONSTANTS Cands,        \* set of candidates
          MaxBallots,
          Shares        \* set of required shares f (rationals)

Types == <<[has |-> FALSE, m |-> {}]>> \o [k \in 1..Cardinality(SUBSET Cands) |-> [has |-> TRUE, m |-> SetToSeq(SUBSET Cands)[k]]]
NT == Len(Types)
Pairs == {p \in Cands \X Cands : p[1] # p[2]}

VARIABLES ix,        \* sequence of ballot-type indices (non-decreasing)
          marks,     \* marks[c]
          n, nc,     \* cards; cards containing the contest
          valid,     \* ballots with exactly one mark
          vfor,      \* vfor[c]: valid ballots marking c
          twoSum,    \* twoSum[p]: twice the sum of the plurality assorter for pair p over all cards
          supSum     \* supSum[<<w,f>>]: sum of the super-majority assorter over the cards containing the contest
vars == <<ix, marks, n, nc, valid, vfor, twoSum, supSum>>

BS == [k \in 1..Len(ix) |-> Types[ix[k]]]

Init == /\ ix = <<>> /\ marks = [c \in Cands |-> 0] /\ n = 0 /\ nc = 0 /\ valid = 0
        /\ vfor = [c \in Cands |-> 0] /\ twoSum = [p \in Pairs |-> 0]
        /\ supSum = [wf \in Cands \X Shares |-> Zero]

AddBallot(t) ==
    LET b == Types[t] IN
    /\ Len(ix) < MaxBallots
    /\ (IF ix = <<>> THEN TRUE ELSE ix[Len(ix)] <= t)
    /\ ix' = Append(ix, t)
    /\ n' = n + 1
    /\ nc' = nc + (IF Has(b) THEN 1 ELSE 0)
    /\ marks' = [c \in Cands |-> marks[c] + Mark(b, c)]
    /\ valid' = valid + (IF OneVote(b, Cands) THEN 1 ELSE 0)
    /\ vfor' = [c \in Cands |-> vfor[c] + (IF OneVote(b, Cands) /\ c \in b.m THEN 1 ELSE 0)]
    /\ twoSum' = [p \in Pairs |-> twoSum[p] + Mark(b, p[1]) - Mark(b, p[2]) + 1]
    /\ supSum' = [wf \in Cands \X Shares |->
                    IF Has(b) THEN RAdd(supSum[wf], SuperAssort(b, wf[1], Cands, wf[2])) ELSE supSum[wf]]
Next == \E t \in 1..NT : AddBallot(t)
Spec == Init /\ [][Next]_vars

(***************************************************************************)
(* C02.  (Means over the cards containing the contest: twoSum - (n - nc)   *)
(* removes the 1/2 scored by cards without it.)                            *)
(***************************************************************************)
TwoSumC(p) == twoSum[p] - (n - nc)
SumInvariant == \A p \in Pairs : twoSum[p] = marks[p[1]] - marks[p[2]] + n
WinnerSets == {W \in SUBSET Cands : Cardinality(W) \in 1..(Cardinality(Cands) - 1)}
PluralityIff ==
    nc > 0 => \A W \in WinnerSets :
        (\A w \in W : \A l \in Cands \ W : 2 * TwoSumC(<<w, l>>) > 2 * nc)      \* mean > 1/2
        <=> (\A w \in W : \A l \in Cands \ W : marks[w] > marks[l])
PluralityIffAllCards ==
    n > 0 => \A W \in WinnerSets :
        (\A w \in W : \A l \in Cands \ W : twoSum[<<w, l>>] > n)
        <=> (\A w \in W : \A l \in Cands \ W : marks[w] > marks[l])
SuperIff ==
    nc > 0 => \A wf \in Cands \X Shares :
        RLt(Half, RDiv(supSum[wf], RNat(nc))) <=> RLt(RMul(wf[2], RNat(valid)), RNat(vfor[wf[1]]))
AssorterRange ==
    \A t \in 1..NT : /\ \A p \in Pairs : RLe(Zero, PlurAssort(Types[t], p[1], p[2]))
                                        /\ RLe(PlurAssort(Types[t], p[1], p[2]), One)
                     /\ \A wf \in Cands \X Shares :
                          LET a == SuperAssort(Types[t], wf[1], Cands, wf[2])
                          IN  RLe(Zero, a) /\ RLe(a, RDiv(One, RMul(RNat(2), wf[2])))
MarginIdentity ==
    nc > 0 =>
      /\ \A p \in Pairs :                       \* (marks_w - marks_l)/cards = 2 mean - 1
           REq(PlurTallyMargin(marks[p[1]], marks[p[2]], nc),
               RSub(RMul(RNat(2), R(TwoSumC(p), 2 * nc)), One))
      /\ \A wf \in Cands \X Shares :            \* q (p/f - 1) = 2 mean - 1
           REq(SuperTallyMargin(vfor[wf[1]], valid, nc, wf[2]),
               RSub(RMul(RNat(2), RDiv(supSum[wf], RNat(nc))), One))
\* the incremental counters agree with the declarative definitions used by the trace specification
CountersAgree ==
    /\ \A c \in Cands : marks[c] = Marks(BS, c) /\ vfor[c] = ValidFor(BS, c, Cands)
    /\ valid = Valid(BS, Cands) /\ nc = NCards(BS, TRUE) /\ n = NCards(BS, FALSE)
    /\ nc > 0 => \A p \in Pairs :
         REq(MeanOf(BS, TRUE, LAMBDA b : PlurAssort(b, p[1], p[2])), R(TwoSumC(p), 2 * nc))

Emit == PrintT("BEH " \o ToJson(BS))
=============================================================================
