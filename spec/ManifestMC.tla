------------------------------ MODULE ManifestMC ------------------------------
EXTENDS Manifest, Json
CONSTANTS MaxBatches, MaxSize, Slack

VARIABLES sizes, bound, ncvrs, pc
vars == <<sizes, bound, ncvrs, pc>>
Init == sizes = <<>> /\ bound = 0 /\ ncvrs = 0 /\ pc = "build"
AddBatch(n) == pc = "build" /\ Len(sizes) < MaxBatches /\ sizes' = Append(sizes, n) /\ UNCHANGED <<bound, ncvrs, pc>>
Fix(b, c) == pc = "build" /\ Len(sizes) > 0 /\ bound' = b /\ ncvrs' = c /\ pc' = "done" /\ UNCHANGED sizes
Next == \/ \E n \in 0..MaxSize : AddBatch(n)
        \/ \E b \in (Total(sizes) - 1)..(Total(sizes) + Slack) : \E c \in 0..(Total(sizes) + 1) : b >= 0 /\ Fix(b, c)

Done == pc = "done"
Ok == Done /\ ~Refused(sizes, bound, ncvrs)
P == Prepared(sizes, bound)
\* C17
PrepAccounts == Ok => Total(P) = bound /\ (Len(P) = Len(sizes) + 1 <=> bound > Total(sizes))
RefusesIff == Done => (Refused(sizes, bound, ncvrs) <=> (Total(sizes) > bound \/ Total(sizes) < ncvrs))
Bijection ==
    Ok => \A v \in {"Dominion", "Hart"} :
            /\ \A s \in ValidNumbers(v, P) :
                 LET pl == Lookup(v, P, s) IN pl.batch \in 1..Len(P) /\ InBatch(v, P, pl) /\ Position(v, P, pl) = s
            /\ \A s, t \in ValidNumbers(v, P) : s # t => Lookup(v, P, s) # Lookup(v, P, t)
            /\ \A b \in 1..Len(P) : \A q \in 0..(P[b] - 1) :      \* every card of every batch is hit
                 \E s \in ValidNumbers(v, P) : Lookup(v, P, s) = [batch |-> b, pos |-> (IF v = "Dominion" THEN q + 1 ELSE q)]
EmptyBatchesNeverHit ==
    Ok => \A v \in {"Dominion", "Hart"} : \A s \in ValidNumbers(v, P) : P[Lookup(v, P, s).batch] > 0
Emit == Done => PrintT("BEH " \o ToJson([sizes |-> sizes, bound |-> bound, ncvrs |-> ncvrs]))
=============================================================================
