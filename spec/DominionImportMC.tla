-------------------------- MODULE DominionImportMC --------------------------
(***************************************************************************)
(* Two exhaustive slices.  Mode "marks": every mark sequence of length     *)
(* <= MaxMarks over Cands x Ranks x {counted, not}: the left-to-right fold *)
(* equals the declarative value and is invariant under every permutation.  *)
(* Mode "session": one session of every shape (key order, layout, which    *)
(* contests the adjudication covers, group, record id) x every option      *)
(* setting, emitted for the driver.                                        *)
(***************************************************************************)
EXTENDS DominionImport, SequencesExt, Json
CONSTANTS Mode, Cands, Ranks, MaxMarks

MarkTypes == SetToSeq([cand : Cands, rank : Ranks, isvote : BOOLEAN])
VARIABLES marks, sess, opts
vars == <<marks, sess, opts>>

KeyOrders == {<<"Original">>, <<"Original", "Modified">>, <<"Modified", "Original">>}
\* a three-letter mark alphabet for the session slice
MA == [cand |-> "1", rank |-> 1, isvote |-> TRUE]
MB == [cand |-> "2", rank |-> 1, isvote |-> TRUE]
MU == [cand |-> "1", rank |-> 2, isvote |-> FALSE]
ContestChoices == {<<MA>>, <<MB, MU>>, <<>>}
Sessions == [tab : {5}, batch : {3}, rec : {"7", "X"}, group : {1, 2}, layout : {"flat", "cards"}, keys : KeyOrders,
             o1 : ContestChoices, o2 : {<<MB>>}, m1 : [has : BOOLEAN, marks : {<<MB>>, <<>>, <<MU, MB>>}], m2 : [has : BOOLEAN, marks : {<<MA, MA>>}]]
Options == [useCurrent : BOOLEAN, enforce : BOOLEAN, include : {{}, {1}, {2}}, pool : {{}, {1}}]

Init == IF Mode = "marks" THEN marks = <<>> /\ sess = "none" /\ opts = "none"
        ELSE marks = <<>> /\ sess \in Sessions /\ opts \in Options
AddMark(t) == Mode = "marks" /\ Len(marks) < MaxMarks /\ marks' = Append(marks, MarkTypes[t]) /\ UNCHANGED <<sess, opts>>
Next == \E t \in 1..Len(MarkTypes) : AddMark(t)

Acc0 == [c \in Cands |-> Absent]
FoldIsValue == \A e \in BOOLEAN : Fold(marks, 1, e, Acc0) = ContestVotes(marks, Cands, e)
PermsOf(s) == {p \in [1..Len(s) -> 1..Len(s)] : \A i, j \in 1..Len(s) : i # j => p[i] # p[j]}
MarkOrderIrrelevant ==
    \A e \in BOOLEAN : \A p \in PermsOf(marks) :
        Fold([k \in 1..Len(marks) |-> marks[p[k]]], 1, e, Acc0) = Fold(marks, 1, e, Acc0)
UncountedIgnoredIffEnforced ==
    \A c \in Cands : Value(marks, c, TRUE) = Value(SelectSeq(marks, LAMBDA m : m.isvote), c, FALSE)
Emit == IF Mode = "marks" THEN PrintT("BEH " \o ToJson([marks |-> marks]))
        ELSE PrintT("BEH " \o ToJson([sess |-> sess, opts |-> opts]))
=============================================================================
