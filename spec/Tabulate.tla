------------------------------- MODULE Tabulate -------------------------------
(***************************************************************************)
(* Tabulation of a collection of cards: CVR.tabulate_styles,               *)
(* CVR.tabulate_votes, CVR.tabulate_cards_contests, Contest.from_cvr_list  *)
(* and Contest.check_cards.  None of the twenty listed properties speaks   *)
(* about these functions; they are part of the system the specification    *)
(* covers all the same (DESIGN.md section 5).  Conformance results for     *)
(* them are reported as observations, never as violations of a property.   *)
(*                                                                         *)
(* A card is a function from the contests it lists to the set of           *)
(* candidates it marks in each (a listed contest may have no marks).       *)
(***************************************************************************)
EXTENDS Integers, Sequences, FiniteSets, TLC

Style(card) == DOMAIN card
Styles(cards) == {Style(cards[k]) : k \in 1..Len(cards)}
\* how many cards have exactly this style
StyleCount(cards, st) == Cardinality({k \in 1..Len(cards) : Style(cards[k]) = st})
\* how many cards list the contest
CardsWith(cards, con) == Cardinality({k \in 1..Len(cards) : con \in Style(cards[k])})
\* how many cards mark the candidate in the contest
Votes(cards, con, cand) == Cardinality({k \in 1..Len(cards) : con \in Style(cards[k]) /\ cand \in cards[k][con]})
Contests(cards) == UNION Styles(cards)

\* Contest.from_cvr_list: one plurality contest per tabulated contest; the reported winner has the largest tally
\* (which of several tied candidates is not specified); the card bound is the number of cards listing the contest
\* when style information is used and the stratum's bound otherwise
Leaders(cards, con, cands) == {c \in cands : \A d \in cands : Votes(cards, con, d) <= Votes(cards, con, c)}
BoundFor(cards, con, useStyle, maxCards) == IF useStyle THEN CardsWith(cards, con) ELSE maxCards

\* Contest.check_cards: refuses (or, forced, raises the bound) exactly when more cards list the contest than its bound
TooMany(cards, con, bound) == CardsWith(cards, con) > bound
BoundAfter(cards, con, bound, force) == IF force /\ TooMany(cards, con, bound) THEN CardsWith(cards, con) ELSE bound
=============================================================================
