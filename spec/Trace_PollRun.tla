----------------------------- MODULE Trace_PollRun -----------------------------
(***************************************************************************)
(* The ballot-polling workflow as one state machine, validated on traces   *)
(* of the documented steps run end to end through the real API:            *)
(*   <vendor>.prep_manifest -> Contest.find_margins_from_tally ->          *)
(*   [ <vendor>.sample_from_manifest -> CVR.prep_polling_sample ->         *)
(*     Assertion.set_p_values -> Audit.summarize_status ]*                 *)
(* One event per step.  The cards are the positions 1..bound of the        *)
(* prepared manifest (Manifest.tla); a round looks up the first n numbers  *)
(* of a fixed random order of all card numbers, n non-decreasing; what the *)
(* manual record of each card shows is fixed for the whole audit.          *)
(* Polling takes no account of card style: every sampled card contributes  *)
(* to every contest, in selection order (a card that lacks the contest, a  *)
(* card that cannot be found and a phantom-batch card score 1/2: what the  *)
(* code does, see PollScore in Comparison.tla and DESIGN.md 9.3).          *)
(*                                                                         *)
(* Contests are plurality contests with candidates W (reported winner), L, *)
(* X and the assertions "W v L", "W v X".                                  *)
(***************************************************************************)
EXTENDS Rat, Integers, Sequences, FiniteSets, TLC, Json, IOUtils, TLCExt, SequencesExt

Ma == INSTANCE Manifest

TraceRecs == ndJsonDeserialize(IOEnv.TRACE_FILE)
NRec == Len(TraceRecs)
VARIABLES i, vendor, sizes, nreal, cons, margin, nprev, data, risk, proved
tvars == <<i, vendor, sizes, nreal, cons, margin, nprev, data, risk, proved>>

Tol == RParse("1/1000000000")
IsNum(s) == s \notin {"nan", "inf", "-inf", "exc"}
Close(s, v) == IsNum(s) /\ RClose(RParse(s), v, Tol, Tol)
Asns == {"W v L", "W v X"}
Loser(a) == IF a = "W v L" THEN "L" ELSE "X"
\* plurality assorter of assertion a on what a manual record shows ("missing", "unfound", "phantom": 1/2)
Val(a, v) == IF v = "W" THEN One ELSE IF v = Loser(a) THEN Zero ELSE Half
Report(e, v) == IF v = {} THEN TRUE ELSE PrintT("REJ " \o ToJson([tid |-> e.tid, clauses |-> v]))
IsPrefixOf(s, t) == Len(s) <= Len(t) /\ \A k \in 1..Len(s) : s[k] = t[k]

TraceInit == /\ i = 1 /\ vendor = "none" /\ sizes = <<>> /\ nreal = 0 /\ cons = <<>> /\ margin = <<>> /\ nprev = 0
             /\ data = <<>> /\ risk = <<>> /\ proved = <<>>

EvPrep(e) ==
    /\ e.act = "prep"
    /\ LET want == Ma!Prepared(e.sizes, e.bound)
           refuse == Ma!Refused(e.sizes, e.bound, 0)
       IN  /\ Report(e, IF "refused" \in DOMAIN e /\ e.refused THEN (IF refuse THEN {} ELSE {"prep:refused"})
                        ELSE IF "exc" \in DOMAIN e THEN {"exc:" \o e.exc.type \o "@" \o e.exc.site}
                        ELSE (IF refuse THEN {"prep:accepted"} ELSE {})
                             \cup (IF e.out.sizes = want THEN {} ELSE {"prep:sizes"})
                             \cup (IF e.out.phantoms = (IF Ma!HasPhantomBatch(e.sizes, e.bound) THEN Ma!Shortfall(e.sizes, e.bound) ELSE 0)
                                   THEN {} ELSE {"prep:phantoms"}))
           /\ sizes' = want /\ vendor' = e.vendor /\ nreal' = Len(e.sizes)
    /\ cons' = <<>> /\ margin' = <<>> /\ nprev' = 0 /\ data' = <<>> /\ risk' = <<>> /\ proved' = <<>>

EvMargins(e) ==
    /\ e.act = "margins"
    /\ LET cs == ToSet(e.cons)
           \* margin of "W v l" from the reported tally: (tally[W] - tally[l]) / cards
           want == [c \in cs |-> [a \in Asns |-> RDiv(RSub(RNat(e.tally[c]["W"]), RNat(e.tally[c][Loser(a)])), RNat(e.cards[c]))]]
       IN  /\ Report(e, IF "exc" \in DOMAIN e THEN {"exc:" \o e.exc.type \o "@" \o e.exc.site}
                        ELSE (IF \A c \in cs : \A a \in Asns : Close(e.out.margin[c][a], want[c][a]) THEN {} ELSE {"margins:margin"}))
           /\ margin' = want
           /\ cons' = e.cons
           /\ data' = [c \in cs |-> [a \in Asns |-> <<>>]]
           /\ risk' = [c \in cs |-> [a \in Asns |-> One]]
           /\ proved' = [c \in cs |-> [a \in Asns |-> FALSE]]
    /\ UNCHANGED <<vendor, sizes, nreal, nprev>>

EvRound(e) ==
    /\ e.act = "pollround"
    /\ LET cs == ToSet(cons)
           n == e.n
           nums == SubSeq(e.order, 1, n)                       \* the sample: card numbers in selection order
           place(s) == Ma!Lookup(vendor, sizes, s)
           phantomBatch == IF Len(sizes) > nreal THEN nreal + 1 ELSE 0     \* 0 = none, else its index
           idx(s) == IF vendor = "Dominion" THEN s ELSE s + 1             \* Hart numbers cards from 0
           shows(s, c) == IF phantomBatch # 0 /\ place(s).batch = phantomBatch THEN "phantom" ELSE e.mvr[idx(s)][c]
           wantData(c, a) == [j \in 1..n |-> Val(a, shows(nums[j], c))]
           o == e.out
           isExc == "exc" \in DOMAIN e
           lim == RParse(e.limit)
           cl ==
             IF isExc THEN {"exc:" \o e.exc.type \o "@" \o e.exc.site}
             ELSE (IF Len(o.cards) = n /\ \A j \in 1..n : o.cards[j].batch = place(nums[j]).batch /\ o.cards[j].pos = place(nums[j]).pos
                   THEN {} ELSE {"pollround:cards"})
                  \cup (IF o.phantom_mvrs = Cardinality({j \in 1..n : phantomBatch # 0 /\ place(nums[j]).batch = phantomBatch})
                        THEN {} ELSE {"pollround:phantom_mvrs"})
                  \cup (IF \A c \in cs : \A a \in Asns :
                             Len(o.data[c][a]) = n /\ \A j \in 1..n : Close(o.data[c][a][j], wantData(c, a)[j])
                        THEN {} ELSE {"pollround:data"})
                  \cup (IF \A c \in cs : \A a \in Asns : Close(o.u[c][a], One) THEN {} ELSE {"pollround:bound"})
                  \cup (IF \A c \in cs : \A a \in Asns :
                             IsNum(o.p[c][a]) /\ o.proved[c][a] = (proved[c][a] \/ RLe(RParse(o.p[c][a]), lim))
                        THEN {} ELSE {"pollround:proved"})
                  \cup (IF \A c \in cs : \A a \in Asns : IsNum(o.p[c][a]) /\ RLe(RParse(o.p[c][a]), RAdd(risk[c][a], Tol))
                        THEN {} ELSE {"pollround:risk_monotone"})
                  \cup (IF o.done = (\A c \in cs : \A a \in Asns : IsNum(o.p[c][a]) /\ RLe(RParse(o.p[c][a]), lim))
                        THEN {} ELSE {"pollround:done"})
                  \cup (IF \A c \in cs : \A a \in Asns : IsPrefixOf(data[c][a], o.data[c][a]) THEN {} ELSE {"pollround:extends"})
                  \cup (IF n >= nprev THEN {} ELSE {"pollround:driver"})
       IN  /\ Report(e, cl)
           /\ IF isExc THEN UNCHANGED <<data, risk, proved, nprev>>
              ELSE /\ data' = [c \in cs |-> [a \in Asns |-> o.data[c][a]]]
                   /\ risk' = [c \in cs |-> [a \in Asns |-> IF IsNum(o.p[c][a]) THEN RParse(o.p[c][a]) ELSE risk[c][a]]]
                   /\ proved' = [c \in cs |-> [a \in Asns |-> o.proved[c][a]]]
                   /\ nprev' = n
    /\ UNCHANGED <<vendor, sizes, nreal, cons, margin>>

TraceNext ==
    \/ /\ i <= NRec
       /\ LET e == TraceRecs[i] IN EvPrep(e) \/ EvMargins(e) \/ EvRound(e)
       /\ i' = i + 1
    \/ /\ i = NRec + 1 /\ PrintT("ACC " \o ToString(NRec)) /\ i' = i + 1
       /\ UNCHANGED <<vendor, sizes, nreal, cons, margin, nprev, data, risk, proved>>
TraceSpec == TraceInit /\ [][TraceNext]_tvars
TraceAccepted == TLCGet("stats").diameter = NRec + 2
=============================================================================
