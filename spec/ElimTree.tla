------------------------------- MODULE ElimTree -------------------------------
(***************************************************************************)
(* The pruned elimination tree drawn for an alternative winner             *)
(* (IRVVisualisationUtils.buildRemainingTreeAsLists).  The root is the     *)
(* alternative winner; a node at the end of a path <<c_1, .., c_k>> stands *)
(* for "c_k is eliminated just before c_{k-1}", with S = the candidates    *)
(* not on the path still to be eliminated earlier.  A node is pruned, and  *)
(* tagged, by                                                              *)
(*   NEB(w, l)   with l = c_k and w in S  (w would go out before l), and   *)
(*   IRV(c, E)   with c = c_k and E = S   (c cannot be next when exactly E *)
(*               are gone).                                                *)
(* C20: an unpruned leaf exists iff some complete elimination order ending *)
(* in the alternative winner is contradicted by no assertion (Contradicts  *)
(* of Raire.tla); tags are exactly the contradicting assertions.           *)
(***************************************************************************)
EXTENDS Raire

\* assertion atoms: NEB as [kind |-> "NEB", w, l, elim |-> {}], IRV as [kind |-> "NEN", w |-> c, l |-> c, elim |-> E]
NebTags(A, c, S) == {a \in A : a.kind = "NEB" /\ a.l = c /\ a.w \in S}
IrvTags(A, c, S) == {a \in A : a.kind = "NEN" /\ a.w = c /\ a.elim = S}
\* the flattened tree: set of [path, pruned, neb, irv] for every pruned node and every unpruned leaf
RECURSIVE Nodes(_, _, _)
Nodes(A, path, S) ==
    LET c == path[Len(path)]
        nt == NebTags(A, c, S)
        it == IrvTags(A, c, S)
    IN  IF nt # {} \/ it # {} THEN {[path |-> path, pruned |-> TRUE, neb |-> nt, irv |-> it]}
        ELSE IF S = {} THEN {[path |-> path, pruned |-> FALSE, neb |-> {}, irv |-> {}]}
        ELSE UNION {Nodes(A, Append(path, d), S \ {d}) : d \in S}
Tree(A, C, alt) == Nodes(A, <<alt>>, C \ {alt})
Reverse(s) == [k \in 1..Len(s) |-> s[Len(s) + 1 - k]]
UnprunedOrders(A, C, alt) == {Reverse(n.path) : n \in {m \in Tree(A, C, alt) : ~m.pruned}}
\* declarative side
Uncontradicted(A, C, alt) == {o \in Perms(C) : o[Len(o)] = alt /\ \A a \in A : ~Contradicts(a, o)}
=============================================================================
