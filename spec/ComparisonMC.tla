----------------------------- MODULE ComparisonMC -----------------------------
(***************************************************************************)
(* Cards are added one at a time in canonical (type-index) order, so every *)
(* multiset of at most MaxCards fully specified cards is reached once, for *)
(* every assorter bound in Us and style on/off.  C03, C06 and the scoring  *)
(* half of C08 as invariants.                                              *)
(***************************************************************************)
EXTENDS Comparison, SequencesExt, Json

CONSTANTS Us, MaxCards, Pools

CvrTypes == {[cs |-> a, ph |-> FALSE, pool |-> p] : a \in CvrClasses, p \in {"none"} \cup Pools}
            \cup {[cs |-> a, ph |-> TRUE, pool |-> p] : a \in {"n", "x"}, p \in {"none"} \cup (IF Pools = {} THEN {} ELSE {CHOOSE q \in Pools : TRUE})}
CardTypes == SetToSeq({[cs |-> t.cs, ph |-> t.ph, pool |-> t.pool, ms |-> m] : t \in CvrTypes, m \in MvrClasses})
NT == Len(CardTypes)

VARIABLES ix, u, style
vars == <<ix, u, style>>
Cards == [k \in 1..Len(ix) |-> CardTypes[ix[k]]]

Init == ix = <<>> /\ u \in Us /\ style \in BOOLEAN
AddCard(t) == /\ Len(ix) < MaxCards
              /\ (IF ix = <<>> THEN TRUE ELSE ix[Len(ix)] <= t)
              /\ ix' = Append(ix, t) /\ UNCHANGED <<u, style>>
Next == \E t \in 1..NT : AddCard(t)
Spec == Init /\ [][Next]_vars

AnyCard == Idx(Cards, style) # {}
V == Margin(Cards, style, u)

\* what each card is compared to averages to the reported assorter mean
CvrLemma ==
    AnyCard => REq(MeanOver([k \in 1..Len(ix) |-> CvrScore(Cards, k, style, u)], Idx(Cards, style)),
               RDiv(RAdd(V, One), RNat(2)))
\* C03: mean(B) - 1/2 = (2 mean(A) - 1) / (2 (2u - v))
Reduction ==
    AnyCard => LET S  == Idx(Cards, style)
               mB == MeanOver([k \in 1..Len(ix) |-> B(Cards, k, style, u, V)], S)
               mA == MeanOver([k \in 1..Len(ix) |-> MvrScore(Cards[k], style, u)], S)
           IN  REq(RSub(mB, Half),
                   RDiv(RSub(RMul(RNat(2), mA), One), RMul(RNat(2), RSub(RMul(RNat(2), u), V))))
\* C06: every datum lies in [0, 2/(2 - v/u)]
DataInBound ==
    AnyCard => \A k \in Idx(Cards, style) :
              /\ RLe(Zero, B(Cards, k, style, u, V))
              /\ RLe(B(Cards, k, style, u, V), TestBound(u, V))
\* C08: an unfindable card never scores higher than any manual record would; an unpooled phantom CVR counts 1/2
PhantomWorstCase ==
    AnyCard => \A k \in Idx(Cards, style) :
              /\ \A m \in MvrClasses :
                    LET alt == [Cards EXCEPT ![k].ms = m]
                        unf == [Cards EXCEPT ![k].ms = "u"]
                    IN  RLe(B(unf, k, style, u, V), B(alt, k, style, u, V))
              /\ (Cards[k].ph /\ Cards[k].pool = "none") => REq(CvrScore(Cards, k, style, u), Half)
\* padding is idempotent and only ever turns "x" into "n" on pooled cards
PaddingSound ==
    /\ Padded(Padded(Cards)) = Padded(Cards)
    /\ \A k \in 1..Len(ix) : Padded(Cards)[k] = Cards[k] \/ (Cards[k].cs = "x" /\ Cards[k].pool # "none" /\ Padded(Cards)[k].cs = "n")
Emit == ix # <<>> => PrintT("BEH " \o ToJson([cards |-> Cards, style |-> style, u |-> RStr(u)]))
=============================================================================
