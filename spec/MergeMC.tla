------------------------------- MODULE MergeMC -------------------------------
EXTENDS Merge, Json
CONSTANTS IdSet, ConSet, Pools, MaxRecs

RecTypes == [id : IdSet, cons : SUBSET ConSet, phantom : BOOLEAN, pool : BOOLEAN, tpool : {"none"} \cup Pools]
VARIABLES recs, m
acc == m.rs
Init == recs = <<>> /\ m = M0
Absorb(r) == /\ Len(recs) < MaxRecs
             /\ recs' = Append(recs, r)
             /\ m' = AbsorbInto(m, r, Len(recs) + 1)
Next == \E r \in RecTypes : Absorb(r)

\* C18
ErrorIffConflict == m.err <=> HasConflict(recs)
Ok == ~m.err
OnePerIdInFirstAppearanceOrder ==
    Ok => /\ Len(acc) = Cardinality(Ids(recs))
          /\ \A k \in 1..Len(acc) : acc[k].id \in Ids(recs)
          /\ \A a, b \in 1..Len(acc) : a < b => FirstOf(recs, acc[a].id) < FirstOf(recs, acc[b].id)
ContestsAreUnionLaterWins ==
    Ok => \A k \in 1..Len(acc) :
            LET S == Of(recs, acc[k].id) IN
            /\ DOMAIN acc[k].votes = UNION {recs[j].cons : j \in S}
            /\ \A c \in DOMAIN acc[k].votes :
                 LET J == {j \in S : c \in recs[j].cons} IN acc[k].votes[c] = CHOOSE j \in J : \A i \in J : i <= j
FlagsMeaningful ==
    Ok => \A k \in 1..Len(acc) :
            LET S == Of(recs, acc[k].id) IN
            /\ acc[k].phantom = (\A j \in S : recs[j].phantom)
            /\ acc[k].pool \in BOOLEAN /\ acc[k].pool = (\E j \in S : recs[j].pool)
            /\ acc[k].tpool = (IF \E j \in S : recs[j].tpool # "none"
                               THEN recs[CHOOSE j \in S : recs[j].tpool # "none"].tpool ELSE "none")
FoldAgrees == m = MergeAll(recs, Len(recs))
Emit == recs # <<>> => PrintT("BEH " \o ToJson(recs))
=============================================================================
