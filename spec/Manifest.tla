------------------------------- MODULE Manifest -------------------------------
(***************************************************************************)
(* Ballot manifests (Dominion / Hart prep_manifest, sample_from_manifest). *)
(* A manifest is a sequence of batch sizes (>= 0).  Preparing it for an    *)
(* upper bound on cards appends a phantom batch of the shortfall, or       *)
(* refuses.  A sample number is looked up by a search in the cumulative    *)
(* counts: Dominion numbers cards 1..total (first batch whose cumulative   *)
(* count is >= s), Hart 0..total-1 (first batch whose cumulative count is  *)
(* > s).                                                                   *)
(***************************************************************************)
EXTENDS Integers, Sequences, FiniteSets, TLC

RECURSIVE Cum(_, _)
Cum(sizes, k) == IF k <= 0 THEN 0 ELSE Cum(sizes, k - 1) + sizes[k]
Total(sizes) == Cum(sizes, Len(sizes))

Refused(sizes, bound, ncvrs) == Total(sizes) > bound \/ Total(sizes) < ncvrs
Shortfall(sizes, bound) == bound - Total(sizes)
Prepared(sizes, bound) == IF Shortfall(sizes, bound) > 0 THEN Append(sizes, Shortfall(sizes, bound)) ELSE sizes
HasPhantomBatch(sizes, bound) == Shortfall(sizes, bound) > 0

\* the search the code performs: scan the cumulative counts from the left
RECURSIVE Scan(_, _, _, _)
Scan(sizes, s, k, strict) ==      \* first k with (strict: cum > s ; else cum >= s)
    IF k > Len(sizes) THEN 0
    ELSE IF (IF strict THEN Cum(sizes, k) > s ELSE Cum(sizes, k) >= s) THEN k ELSE Scan(sizes, s, k + 1, strict)
LookupDominion(sizes, s) == LET b == Scan(sizes, s, 1, FALSE) IN [batch |-> b, pos |-> s - Cum(sizes, b - 1)]   \* s in 1..total
LookupHart(sizes, s)     == LET b == Scan(sizes, s, 1, TRUE)  IN [batch |-> b, pos |-> s - Cum(sizes, b - 1)]   \* s in 0..total-1
Lookup(vendor, sizes, s) == IF vendor = "Dominion" THEN LookupDominion(sizes, s) ELSE LookupHart(sizes, s)
ValidNumbers(vendor, sizes) == IF vendor = "Dominion" THEN 1..Total(sizes) ELSE 0..(Total(sizes) - 1)
\* declarative side: the place of card (batch, pos) in the concatenation of the batches
Position(vendor, sizes, pl) == Cum(sizes, pl.batch - 1) + pl.pos
InBatch(vendor, sizes, pl) == IF vendor = "Dominion" THEN pl.pos \in 1..sizes[pl.batch] ELSE pl.pos \in 0..(sizes[pl.batch] - 1)
=============================================================================
