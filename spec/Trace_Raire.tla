----------------------------- MODULE Trace_Raire -----------------------------
(***************************************************************************)
(* Trace validation for C04, C15, C14.  Record kinds:                      *)
(*  "search"  compute_raire_assertions(contest, cvrs, winner, fn) on one   *)
(*            TLC-generated profile: every returned assertion true with    *)
(*            its reported tallies (true, tally), alternatives excluded    *)
(*            (sufficient), empty iff no audit possible (empty), largest   *)
(*            difficulty = the optimum (optimal), float difficulty = exact *)
(*            function of the tallies (difficulty), tallies reproduced on  *)
(*            re-application (reapply).                                    *)
(*  "vote"    one ranked ballot x one assertion: the generator's verdicts  *)
(*            and the audit's assorter against the one definition.         *)
(*  "reader"  one RAIRE-format file read by both readers.                  *)
(***************************************************************************)
EXTENDS Raire, Json, IOUtils, TLCExt, SequencesExt

TraceRecs == ndJsonDeserialize(IOEnv.TRACE_FILE)
NRec == Len(TraceRecs)
VARIABLE i

Tol == RParse("1/1000000000")
IsNum(s) == s \notin {"nan", "inf", "-inf", "exc"}
AsnOf(x) == [kind |-> x.kind, w |-> x.w, l |-> x.l, elim |-> ToSet(x.elim)]

SearchClauses(r) ==
    IF "exc" \in DOMAIN r THEN {"exc:" \o r.exc.type \o "@" \o r.exc.site}
    ELSE
    LET C == ToSet(r.cands)
        prof == r.profile
        res == r.result
        A == {AsnOf(res[k]) : k \in 1..Len(res)}
        possible == AuditPossible(prof, C, r.winner)
        wf == \A k \in 1..Len(res) : res[k].w \in C /\ res[k].l \in C /\ res[k].w # res[k].l /\ ToSet(res[k].elim) \subseteq C
    IN  IF ~wf THEN {"malformed"}
        ELSE
        (IF \A k \in 1..Len(res) : res[k].tw > res[k].tl /\ Holds(prof, AsnOf(res[k])) THEN {} ELSE {"true"})
        \cup (IF \A k \in 1..Len(res) : res[k].tw = TallyW(prof, AsnOf(res[k])) /\ res[k].tl = TallyL(prof, AsnOf(res[k]))
              THEN {} ELSE {"tally"})
        \cup (IF res # <<>> /\ ~Sufficient(A, C, r.winner) THEN {"sufficient"} ELSE {})
        \cup (IF (res = <<>>) # (~possible) THEN {IF res = <<>> THEN "empty:but_possible" ELSE "empty:not_possible"} ELSE {})
        \cup (IF \A k \in 1..Len(res) : res[k].tw > res[k].tl =>
                    (IsNum(res[k].diff) /\ RClose(RParse(res[k].diff), Difficulty(r.fn, res[k].tw, res[k].tl, r.total), Tol, Tol))
              THEN {} ELSE {"difficulty"})
        \cup (IF res # <<>> /\ possible /\ (\A k \in 1..Len(res) : res[k].tw > res[k].tl) /\
                 ~REq(RMaxSet({Difficulty(r.fn, res[k].tw, res[k].tl, r.total) : k \in 1..Len(res)}),
                      Optimum(r.fn, prof, r.total, C, r.winner))
              THEN {"optimal"} ELSE {})
        \cup (IF \A k \in 1..Len(res) : res[k].re_tw = res[k].tw /\ res[k].re_tl = res[k].tl THEN {} ELSE {"reapply"})
        \* the audit's assorter mean over the cards that carry the contest: (W - L + n)/(2n), so > 1/2 iff W > L
        \cup (IF \A k \in 1..Len(res) : "mean" \in DOMAIN res[k] =>
                    (IsNum(res[k].mean) /\ Len(prof) > 0 /\
                     RClose(RParse(res[k].mean), R(TallyW(prof, AsnOf(res[k])) - TallyL(prof, AsnOf(res[k])) + Len(prof), 2 * Len(prof)),
                            RParse("1/1000000000"), RParse("1/1000000000")))
              THEN {} ELSE {"reapply:mean"})

VoteClauses(r) ==
    LET a == AsnOf(r.asn)
        b == r.ballot
        w == IF ForWinner(a, b) THEN 1 ELSE 0
        l == IF ForLoser(a, b) THEN 1 ELSE 0
    IN  (IF r.raire_w = w THEN {} ELSE {"vote:raire_winner"})
        \cup (IF r.raire_l = l THEN {} ELSE {"vote:raire_loser"})
        \cup (IF IsNum(r.assort) /\ REq(RParse(r.assort), R(w - l + 1, 2)) THEN {} ELSE {"vote:assort"})
        \cup (IF IsNum(r.assort) /\ REq(RParse(r.assort), R(r.raire_w - r.raire_l + 1, 2)) THEN {} ELSE {"vote:agree"})

\* both readers give the k-th listed candidate rank k (1-based in the audit, 0-based in the generator)
ReaderClauses(r) ==
    (IF \A k \in 1..Len(r.rows) :
          LET row == r.rows[k]
              got == r.cvr_reader[k]            \* candidates sorted by the rank the CVR reader assigned
          IN  got.ranking = row.prefs /\ got.ranks = [j \in 1..Len(row.prefs) |-> j]
     THEN {} ELSE {"reader:cvr"})
    \cup (IF \A k \in 1..Len(r.rows) :
               LET row == r.rows[k]  got == r.raire_reader[k]
               IN  got.ranking = row.prefs /\ got.ranks = [j \in 1..Len(row.prefs) |-> j - 1]
          THEN {} ELSE {"reader:raire"})
    \* one record per card identifier (the count of lines read is not part of any listed property)
    \cup (IF r.n_cards = Cardinality({r.rows[k].bid : k \in 1..Len(r.rows)}) THEN {} ELSE {"reader:count"})

Verdict(r) ==
    IF r.kind = "search" THEN SearchClauses(r)
    ELSE IF r.kind = "vote" THEN VoteClauses(r)
    ELSE IF "exc" \in DOMAIN r THEN {"exc:" \o r.exc.type \o "@" \o r.exc.site}
    ELSE ReaderClauses(r)

TraceInit == i = 1
TraceNext ==
    \/ /\ i <= NRec
       /\ LET r == TraceRecs[i]  v == Verdict(r)
          IN  IF v = {} THEN TRUE ELSE PrintT("REJ " \o ToJson([tid |-> r.tid, clauses |-> v]))
       /\ i' = i + 1
    \/ /\ i = NRec + 1 /\ PrintT("ACC " \o ToString(NRec)) /\ i' = i + 1
TraceSpec == TraceInit /\ [][TraceNext]_i
TraceAccepted == TLCGet("stats").diameter = NRec + 2
=============================================================================
