------------------------------ MODULE TabulateMC ------------------------------
(***************************************************************************)
(* Cards are added one at a time; the counting identities that tie the     *)
(* three tabulations together are invariants, and every reachable list of  *)
(* cards is emitted for replay against the real functions.                 *)
(***************************************************************************)
EXTENDS Tabulate, Json
CONSTANTS ConSet, CandSet, MaxCards
VARIABLE cards

CardSpace == UNION {[st -> SUBSET CandSet] : st \in SUBSET ConSet}
Init == cards = <<>>
AddCard == /\ Len(cards) < MaxCards
           /\ \E c \in CardSpace : cards' = Append(cards, c)
Next == AddCard

\* every card has exactly one style
StylesPartition ==
    LET RECURSIVE Sum(_)
        Sum(S) == IF S = {} THEN 0 ELSE LET s == CHOOSE s \in S : TRUE IN StyleCount(cards, s) + Sum(S \ {s})
    IN  Sum(Styles(cards)) = Len(cards)
\* the cards listing a contest are the cards of the styles that contain it
CardsFromStyles ==
    \A con \in ConSet :
        LET RECURSIVE Sum(_)
            Sum(S) == IF S = {} THEN 0 ELSE LET s == CHOOSE s \in S : TRUE IN StyleCount(cards, s) + Sum(S \ {s})
        IN  CardsWith(cards, con) = Sum({s \in Styles(cards) : con \in s})
\* nobody gets more votes in a contest than cards list it; an unlisted contest has no votes
VotesBounded == \A con \in ConSet : \A c \in CandSet : Votes(cards, con, c) <= CardsWith(cards, con)
\* a reported winner exists for every tabulated contest with candidates
LeaderExists == \A con \in Contests(cards) : Leaders(cards, con, CandSet) # {}
\* forcing the bounds makes the check pass
ForcedBoundsHold == \A con \in ConSet : \A b \in 0..MaxCards : ~TooMany(cards, con, BoundAfter(cards, con, b, TRUE))

Emit == PrintT("BEH " \o ToJson([k \in 1..Len(cards) |-> [con \in DOMAIN cards[k] |-> cards[k][con]]]))
=============================================================================
