------------------------------ MODULE SamplingMC ------------------------------
(***************************************************************************)
(* The walk as a state machine (one Step per loop iteration), over several *)
(* rounds with non-decreasing sizes.  Cards are listed in rank order       *)
(* (order = identity): the walk depends on list positions only through the *)
(* indices it returns, which the conformance driver permutes.              *)
(* C07 at the end of every from-scratch round; C10 between rounds.         *)
(***************************************************************************)
EXTENDS Sampling, Json

CONSTANTS Cons, NCards, MaxRounds, Variants

VARIABLES styles, size, w, pc, round, hist,
          prevSel, prevThr, prevData       \* snapshot at the end of the previous round
vars == <<styles, size, w, pc, round, hist, prevSel, prevThr, prevData>>

Order == [k \in 1..NCards |-> k]
ZeroF == [c \in Cons |-> 0]
W0 == [pos |-> 1, cnt |-> ZeroF, thr |-> ZeroF, sel |-> <<>>, crashed |-> FALSE]
Data(c) == DataFor(styles, Order, w.sel, w.thr, c)

Init == /\ styles \in [1..NCards -> SUBSET Cons]
        /\ size = ZeroF /\ w = W0 /\ pc = "idle" /\ round = 0 /\ hist = <<>>
        /\ prevSel = <<>> /\ prevThr = ZeroF /\ prevData = [c \in Cons |-> <<>>]

Begin(ns, v) ==
    /\ pc = "idle" /\ round < MaxRounds
    /\ \A c \in Cons : size[c] <= ns[c] /\ ns[c] <= Avail(styles, c)
    /\ prevSel' = w.sel /\ prevThr' = w.thr /\ prevData' = [c \in Cons |-> Data(c)]
    /\ size' = ns
    /\ w' = Start(v, styles, ns, w.thr, w.sel)
    /\ pc' = "walking" /\ round' = round + 1
    /\ hist' = Append(hist, [sizes |-> ns, variant |-> v])
    /\ UNCHANGED styles
Step ==
    /\ pc = "walking" /\ InProgress(w.cnt, size) # {} /\ w.pos <= NCards
    /\ w' = StepAt(styles, Order, size, w)
    /\ UNCHANGED <<styles, size, pc, round, hist, prevSel, prevThr, prevData>>
Crash ==
    /\ pc = "walking" /\ InProgress(w.cnt, size) # {} /\ w.pos > NCards
    /\ pc' = "crashed" /\ w' = [w EXCEPT !.crashed = TRUE]
    /\ UNCHANGED <<styles, size, round, hist, prevSel, prevThr, prevData>>
Finish ==
    /\ pc = "walking" /\ InProgress(w.cnt, size) = {}
    /\ pc' = "idle"
    /\ UNCHANGED <<styles, size, w, round, hist, prevSel, prevThr, prevData>>
Next == \/ \E ns \in [Cons -> 0..NCards] : \E v \in (IF round = 0 THEN {"redraw"} ELSE Variants) : Begin(ns, v)
        \/ Step \/ Crash \/ Finish
Spec == Init /\ [][Next]_vars

EndOfRound == pc = "idle" /\ round > 0
LastVariant == hist[Len(hist)].variant

(***************************************************************************)
(* C07 - for a sample drawn from scratch                                   *)
(***************************************************************************)
SelIsUnionOfFirst ==
    (EndOfRound /\ LastVariant = "redraw") =>
        /\ Range(w.sel) = UnionFirst(styles, Order, size)
        /\ NoRepeat(w.sel) /\ SortedByRank(Order, w.sel)
ThresholdIsNth ==
    (EndOfRound /\ LastVariant = "redraw") =>
        \A c \in Cons : size[c] > 0 =>
            LET f == FirstN(styles, Order, c, size[c], 1) IN w.thr[c] = RankOf(Order, f[Len(f)])
DataIsFirstN ==
    (EndOfRound /\ LastVariant = "redraw") =>
        \A c \in Cons : size[c] > 0 => Data(c) = FirstN(styles, Order, c, size[c], 1)
NeverCrashesFromScratch == (pc = "crashed") => LastVariant # "redraw"
WalkAgrees ==      \* the step-by-step machine and the recursive operator used by the trace specification agree
    EndOfRound => LET s == Start(LastVariant, styles, size, prevThr, prevSel)
                  IN  Walk(styles, Order, size, s) = w

(***************************************************************************)
(* C10 - escalation only extends the evidence (either variant)             *)
(***************************************************************************)
Extends ==
    (EndOfRound /\ round > 1) =>
        /\ Range(prevSel) \subseteq Range(w.sel)
        /\ NoRepeat(w.sel)
        /\ \A c \in Cons : IsPrefixOf(prevData[c], Data(c))
        /\ \A c \in Cons : prevThr[c] <= w.thr[c]
NoCrash == pc # "crashed"

Emit == (EndOfRound /\ round = MaxRounds) \/ pc = "crashed" =>
           PrintT("BEH " \o ToJson([styles |-> styles, rounds |-> hist]))
=============================================================================
