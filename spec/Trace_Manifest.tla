---------------------------- MODULE Trace_Manifest ----------------------------
(***************************************************************************)
(* Trace validation for C17 (and the lookup half of C08).  Record kinds:   *)
(*  "manifest"  one TLC-generated manifest / bound / CVR count through the *)
(*              real prep_manifest and sample_from_manifest of a vendor;   *)
(*  "cvrs"      one sample of CVR indices through sample_from_cvrs.        *)
(***************************************************************************)
EXTENDS Manifest, Json, IOUtils, TLCExt, SequencesExt

TraceRecs == ndJsonDeserialize(IOEnv.TRACE_FILE)
NRec == Len(TraceRecs)
VARIABLE i

ManifestClauses(r) ==
    LET ref == Refused(r.sizes, r.bound, r.ncvrs) IN
    IF r.refused THEN (IF ref THEN {} ELSE {"refused:spurious"})
    ELSE IF ref THEN {"refused:missing"}
    ELSE LET P == Prepared(r.sizes, r.bound)
             o == r.out
             ph == HasPhantomBatch(r.sizes, r.bound)
         IN  (IF o.prepared_sizes = P /\ o.manifest_cards = Total(r.sizes) /\ o.phantoms = Shortfall(r.sizes, r.bound)
                 /\ o.cum = [k \in 1..Len(P) |-> Cum(P, k)] THEN {} ELSE {"prep"})
             \* prepared again, the prepared manifest is an input like any other: its phantom batch counts as listed cards
             \cup (IF o.again.done => (/\ o.again.sizes = Prepared(P, o.again.bound)
                                       /\ o.again.manifest_cards = Total(P)
                                       /\ o.again.phantoms = Shortfall(P, o.again.bound))
                   THEN {} ELSE {"prep:again"})
             \cup (IF Len(o.cards) = Len(r.sample) /\ \A k \in 1..Len(r.sample) :
                        LET pl == Lookup(r.vendor, P, r.sample[k]) IN o.cards[k].batch = pl.batch /\ o.cards[k].pos = pl.pos
                   THEN {} ELSE {"lookup"})
             \* the statement on the code's own output: positions inside the batch, one card per number
             \cup (IF Len(o.cards) = Len(r.sample) /\
                      (\A k \in 1..Len(o.cards) : o.cards[k].batch \in 1..Len(P) /\ InBatch(r.vendor, P, [batch |-> o.cards[k].batch, pos |-> o.cards[k].pos]))
                      /\ Cardinality({<<o.cards[k].batch, o.cards[k].pos>> : k \in 1..Len(o.cards)}) = Cardinality(ToSet(r.sample))
                   THEN {} ELSE {"bijection"})
             \cup (IF Len(o.cards) = Len(r.sample) /\ \A k \in 1..Len(o.cards) : o.cards[k].order = k - 1 THEN {} ELSE {"selection_order"})
             \cup (IF Len(o.cards) = Len(r.sample) /\
                      o.phantom_mvrs = SelectSeq([k \in 1..Len(o.cards) |-> o.cards[k].id],
                                                 LAMBDA id : \E k \in 1..Len(o.cards) : o.cards[k].id = id /\ ph /\ o.cards[k].batch = Len(P))
                      /\ o.phantom_mvrs_ok
                   THEN {} ELSE {"phantom_mvrs"})

CvrClauses(r) ==
    LET o == r.out
        want == [k \in 1..Len(r.sample) |-> r.ids[r.sample[k] + 1]]
    IN  (IF o.cvr_sample_ids = want THEN {} ELSE {"cvr_sample"})
        \cup (IF o.order_ids = want THEN {} ELSE {"selection_order"})
        \* the card returned for a real record carries the locator of the manifest row of ITS batch (a phantom: none)
        \cup (IF Len(o.locs) = Len(r.sample) /\ \A k \in 1..Len(r.sample) :
                   LET j == r.sample[k] + 1 IN
                   IF r.phantom[j] THEN o.locs[k] = ""
                   ELSE \E q \in 1..Len(r.rows) : r.rows[q].batch = r.batch_of[j] /\ r.rows[q].loc = o.locs[k]
              THEN {} ELSE {"locator"})
        \cup (IF o.phantom_mvr_ids = SelectSeq(want, LAMBDA id : \E j \in 1..Len(r.ids) : r.ids[j] = id /\ r.phantom[j]) /\ o.phantom_mvrs_ok
              THEN {} ELSE {"phantom_mvrs"})

Verdict(r) ==
    IF "exc" \in DOMAIN r THEN {"exc:" \o r.exc.type \o "@" \o r.exc.site}
    ELSE IF r.kind = "manifest" THEN ManifestClauses(r) ELSE CvrClauses(r)

TraceInit == i = 1
TraceNext ==
    \/ /\ i <= NRec
       /\ LET r == TraceRecs[i]  v == Verdict(r)
          IN  IF v = {} THEN TRUE ELSE PrintT("REJ " \o ToJson([tid |-> r.tid, clauses |-> v]))
       /\ i' = i + 1
    \/ /\ i = NRec + 1 /\ PrintT("ACC " \o ToString(NRec)) /\ i' = i + 1
TraceSpec == TraceInit /\ [][TraceNext]_i
TraceAccepted == TLCGet("stats").diameter = NRec + 2
=============================================================================
