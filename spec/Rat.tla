-------------------------------- MODULE Rat --------------------------------
(***************************************************************************)
(* Exact rational numbers as an abstract data type.                        *)
(*                                                                         *)
(* The definitions below, on normalised pairs <<n, d>> (d > 0, gcd 1),     *)
(* are the SEMANTICS.  TLC's integers are 32 bit, so for model checking    *)
(* every operator is replaced by the Java module override Rat.class        *)
(* (java.math.BigInteger; a value is the normalised string "n/d").         *)
(* Specifications touch rationals only through the operators of this       *)
(* module, so the representation is invisible to them.  bin/setup runs a   *)
(* differential self-test (RatSelfTest.tla) of override against definition.*)
(***************************************************************************)
EXTENDS Integers, Sequences, TLC

LOCAL Abs(x) == IF x < 0 THEN -x ELSE x
RECURSIVE GCD(_, _)
LOCAL GCD(a, b) == IF b = 0 THEN a ELSE GCD(b, a % b)
LOCAL Norm(n, d) ==
    LET s == IF d < 0 THEN -1 ELSE 1
        g == GCD(Abs(n), Abs(d))
    IN  IF n = 0 THEN <<0, 1>> ELSE <<(s * n) \div g, (s * d) \div g>>

R(n, d)      == Norm(n, d)                \* the rational n/d, d # 0
RNat(n)      == <<n, 1>>
Zero         == R(0, 1)
One          == R(1, 1)
Half         == R(1, 2)
RAdd(a, b)   == Norm(a[1] * b[2] + b[1] * a[2], a[2] * b[2])
RSub(a, b)   == Norm(a[1] * b[2] - b[1] * a[2], a[2] * b[2])
RMul(a, b)   == Norm(a[1] * b[1], a[2] * b[2])
RDiv(a, b)   == Norm(a[1] * b[2], a[2] * b[1])        \* b # 0
RNeg(a)      == <<-a[1], a[2]>>
RLe(a, b)    == a[1] * b[2] <= b[1] * a[2]
RLt(a, b)    == a[1] * b[2] <  b[1] * a[2]
REq(a, b)    == a[1] * b[2] =  b[1] * a[2]
RIsZero(a)   == a[1] = 0
RSign(a)     == IF a[1] < 0 THEN -1 ELSE IF a[1] = 0 THEN 0 ELSE 1
RMin(a, b)   == IF RLe(a, b) THEN a ELSE b
RMax(a, b)   == IF RLe(a, b) THEN b ELSE a
RAbs(a)      == IF a[1] < 0 THEN RNeg(a) ELSE a
RFloor(a)    == a[1] \div a[2]            \* integer floor (TLA+ \div floors); must fit 32 bits
RStr(a)      == ToString(a[1]) \o "/" \o ToString(a[2])
\* |a - b| <= tolA + tolR * |b|
RClose(a, b, tolA, tolR) == RLe(RAbs(RSub(a, b)), RAdd(tolA, RMul(tolR, RAbs(b))))
\* Parse the decimal string "n/d" (what traces carry).  The definition is only
\* usable for small values (the self-test); the override parses any size.
LOCAL SmallRats == {Norm(n, d) : n \in -60..60, d \in 1..60}
RParse(s)    == CHOOSE q \in SmallRats : RStr(q) = s
\* TRUE iff the Java override is active (the definition says FALSE).
RatOverridden == FALSE
=============================================================================
