------------------------- MODULE Trace_DominionImport -------------------------
(***************************************************************************)
(* Trace validation for C19: each record is one export (TLC-generated      *)
(* sessions and options, serialised to JSON with the specified key order)  *)
(* read by the real Dominion.read_cvrs / read_cvrs_directory.              *)
(* Clauses: count (one record per included session, file order), id, pool, *)
(* contests (which contests a record lists), votes (smallest positive rank *)
(* of the counted marks; adjudication replaces original), exc:*.           *)
(***************************************************************************)
EXTENDS DominionImport, Json, IOUtils, TLCExt, SequencesExt

TraceRecs == ndJsonDeserialize(IOEnv.TRACE_FILE)
NRec == Len(TraceRecs)
VARIABLE i

SessOf(x) == [tab |-> x.tab, batch |-> x.batch, rec |-> x.rec, masknum |-> x.masknum, group |-> x.group, keys |-> x.keys,
              orig |-> x.orig, modi |-> x.modi]
RecId(s) == IF s.rec = "X" THEN s.masknum ELSE s.rec
CandsOf(marks) == {marks[k].cand : k \in 1..Len(marks)}

Clauses(r) ==
    LET ss == [k \in 1..Len(r.sessions) |-> SessOf(r.sessions[k])]
        inc == ToSet(r.opts.include)
        pl == ToSet(r.opts.pool)
        keep == SelectSeq(ss, LAMBDA s : Included(s, inc))
        o == r.out
    IN  IF Len(o) # Len(keep) THEN {"count"}
        ELSE
        (IF \A k \in 1..Len(keep) : o[k].id = ToString(keep[k].tab) \o "-" \o ToString(keep[k].batch) \o "-" \o RecId(keep[k])
                                    /\ o[k].tpool = ToString(keep[k].tab) \o "-" \o ToString(keep[k].batch)
         THEN {} ELSE {"id"})
        \cup (IF \A k \in 1..Len(keep) : o[k].pool = (keep[k].group \in pl) THEN {} ELSE {"pool"})
        \cup (IF \A k \in 1..Len(keep) : DOMAIN o[k].votes = DOMAIN SessionContests(keep[k], r.opts.useCurrent) THEN {} ELSE {"contests"})
        \cup (IF \A k \in 1..Len(keep) :
                   LET sc == SessionContests(keep[k], r.opts.useCurrent) IN
                   \A id \in (DOMAIN sc) \cap (DOMAIN o[k].votes) :
                       LET want == ContestVotes(sc[id], CandsOf(sc[id]), r.opts.enforce)
                           got == o[k].votes[id]
                       IN  /\ DOMAIN got = {c \in DOMAIN want : want[c] # Absent}
                           /\ \A c \in DOMAIN got : got[c] = want[c]
              THEN {} ELSE {"votes"})

Verdict(r) == IF "exc" \in DOMAIN r THEN {"exc:" \o r.exc.type \o "@" \o r.exc.site} ELSE Clauses(r)

TraceInit == i = 1
TraceNext ==
    \/ /\ i <= NRec
       /\ LET r == TraceRecs[i]  v == Verdict(r)
          IN  IF v = {} THEN TRUE ELSE PrintT("REJ " \o ToJson([tid |-> r.tid, clauses |-> v]))
       /\ i' = i + 1
    \/ /\ i = NRec + 1 /\ PrintT("ACC " \o ToString(NRec)) /\ i' = i + 1
TraceSpec == TraceInit /\ [][TraceNext]_i
TraceAccepted == TLCGet("stats").diameter = NRec + 2
=============================================================================
