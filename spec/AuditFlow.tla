------------------------------ MODULE AuditFlow ------------------------------
(***************************************************************************)
(* Status bookkeeping of an audit (Assertion.set_p_values,                 *)
(* Audit.summarize_status, Assertion.reset_p_values): every assertion gets *)
(* the p-value and history its own test returns, `proved` is sticky, a     *)
(* contest's measured risk is the maximum over its assertions, the audit   *)
(* is complete iff every assertion meets ITS contest's risk limit.  (C09)  *)
(*                                                                         *)
(* conf = sequence of assertions [con |-> contest id, lim |-> that         *)
(* contest's risk limit]; chosen at Init so that one trace specification   *)
(* serves every configuration.                                             *)
(***************************************************************************)
EXTENDS Rat, Integers, Sequences, FiniteSets, TLC

CONSTANTS Configs,     \* set of configurations (sequences of [con, lim])
          PGrid,       \* p-values a test may return
          HLens        \* history lengths a test may return

VARIABLES conf, p, hlen, proved, maxp, ret, last
vars == <<conf, p, hlen, proved, maxp, ret, last>>

NA == Len(conf)
ConsOf(cf) == {cf[a].con : a \in 1..Len(cf)}
AsnsOf(cf, c) == {a \in 1..Len(cf) : cf[a].con = c}
RMaxSet(S) == IF S = {} THEN Zero ELSE CHOOSE x \in S : \A y \in S : RLe(y, x)

Init == /\ conf \in Configs
        /\ p = [a \in 1..Len(conf) |-> One] /\ hlen = [a \in 1..Len(conf) |-> 0]
        /\ proved = [a \in 1..Len(conf) |-> FALSE]
        /\ maxp = [c \in ConsOf(conf) |-> "unset"] /\ ret = "none" /\ last = "init"

\* each assertion's test returns ps[a] = [p, n]
SetP(ps) ==
    /\ p' = [a \in 1..NA |-> ps[a].p]
    /\ hlen' = [a \in 1..NA |-> ps[a].n]
    /\ proved' = [a \in 1..NA |-> proved[a] \/ RLe(ps[a].p, conf[a].lim)]
    /\ maxp' = [c \in ConsOf(conf) |-> RMaxSet({ps[a].p : a \in AsnsOf(conf, c)})]
    /\ ret' = RMaxSet({ps[a].p : a \in 1..NA})
    /\ last' = "setp" /\ UNCHANGED conf
Summarize ==
    /\ ret' = (\A a \in 1..NA : RLe(p[a], conf[a].lim))
    /\ last' = "summarize" /\ UNCHANGED <<conf, p, hlen, proved, maxp>>
Reset ==
    /\ p' = [a \in 1..NA |-> One] /\ hlen' = [a \in 1..NA |-> 0] /\ proved' = [a \in 1..NA |-> FALSE]
    /\ maxp' = [c \in ConsOf(conf) |-> One] /\ ret' = TRUE /\ last' = "reset" /\ UNCHANGED conf
Next == \/ \E ps \in [1..NA -> [p : PGrid, n : HLens]] : SetP(ps)
        \/ Summarize \/ Reset
Spec == Init /\ [][Next]_vars

(***************************************************************************)
(* C09                                                                     *)
(***************************************************************************)
\* a contest's measured risk is the largest p-value among its assertions; the returned value the largest overall
MaxIsMax ==
    last = "setp" =>
       /\ \A c \in ConsOf(conf) : /\ \A a \in AsnsOf(conf, c) : RLe(p[a], maxp[c])
                                  /\ \E a \in AsnsOf(conf, c) : REq(p[a], maxp[c])
       /\ \A a \in 1..NA : RLe(p[a], ret)
       /\ (NA > 0 => \E a \in 1..NA : REq(p[a], ret))
\* complete iff every assertion of every contest is at or below that contest's own limit
DoneIff ==
    last = "summarize" => (ret <=> \A c \in ConsOf(conf) : \A a \in AsnsOf(conf, c) : RLe(p[a], conf[a].lim))
\* an assertion whose current p-value meets its limit is marked confirmed; confirmed status never lapses except by reset
ConfirmedMarked == \A a \in 1..NA : RLe(p[a], conf[a].lim) => proved[a]
ProvedSticky == [][\A a \in 1..NA : proved[a] => (proved'[a] \/ last' = "reset")]_vars
ResetRestores ==
    last = "reset" => /\ \A a \in 1..NA : REq(p[a], One) /\ hlen[a] = 0 /\ ~proved[a]
                      /\ \A c \in ConsOf(conf) : REq(maxp[c], One)
\* a complete audit has every assertion confirmed
CompleteMeansAllProved == (last = "summarize" /\ ret = TRUE) => \A a \in 1..NA : proved[a]
=============================================================================
