---------------------------- MODULE Trace_SeqTest ----------------------------
(***************************************************************************)
(* Trace validation for NonnegMean: every record is one execution of       *)
(*   NonnegMean(test, estim, bet, u, N, t, ...).test(x)   (plus estim/bet) *)
(* recorded by harness/seqtest.py.  Records arrive in depth-first order of *)
(* the tree of samples (a sample right after its longest proper prefix's   *)
(* subtree began), so the specification state carries the outputs of the   *)
(* current chain of prefixes ("stack") - that is what the non-anticipation *)
(* clauses (C05) are evaluated against.                                    *)
(*                                                                         *)
(* A record is accepted iff every clause holds; the verdict names the      *)
(* failing clauses:                                                        *)
(*   exc, len, unit:*, unitp:*, overall   (C11)                            *)
(*   stat:*                               (C12, C01)                       *)
(*   range:*                              (C13)                            *)
(*   valid                                (C01: bet inside the range for   *)
(*                                         which SeqTestMC proves Ville)   *)
(*   predictable:*, prefix:*              (C05)                            *)
(* The statistic is recomputed exactly with SeqTest's own StNext / PStep   *)
(* from the LOGGED alternative or bet, so no estimator formula is imposed. *)
(***************************************************************************)
EXTENDS SeqTest, Json, IOUtils, TLCExt, SequencesExt

TraceRecs == ndJsonDeserialize(IOEnv.TRACE_FILE)
NRec == Len(TraceRecs)

VARIABLES i, stack
tvars == <<i, stack>>

TolP == RParse("1/1000000000")           \* comparison of reported values with exact ones
TolS == RParse("1/1000000000000")        \* code-against-code comparisons and range slack

NonNum == {"nan", "inf", "-inf"}
IsNum(s) == s \notin NonNum
Num(s) == RParse(s)
SameNum(a, b) == a = b \/ (IsNum(a) /\ IsNum(b) /\ RClose(Num(a), Num(b), TolS, TolS))
LeTol(a, b) == RLe(a, RAdd(b, TolS))                       \* a <= b up to slack

Cfg(r) == [method |-> r.cfg.method, estim |-> r.cfg.estim, N |-> r.cfg.N,
           u |-> Num(r.cfg.u), t |-> Num(r.cfg.t), eta |-> Num(r.cfg.eta), lam |-> Num(r.cfg.lam),
           g |-> Num(r.cfg.g), d |-> r.cfg.d, cs |-> [k \in 1..Len(r.cfg.cs) |-> Num(r.cfg.cs[k])],
           cg |-> Num(r.cfg.cg), p2 |-> Num(r.cfg.p2), ro |-> r.cfg.ro]

HasOut(r) == "out" \in DOMAIN r
XS(r) == [k \in 1..Len(r.x) |-> Num(r.x[k])]

(***************************************************************************)
(* Where the documented rule itself has no value (0/0) - the inputs of the *)
(* recorded findings KF-AGRAPA-NAN, KF-KK-NAN, KF-SPRT-NAN.  A not-a-number *)
(* at or after such a draw carries the suffix ":undefined-rule"; one that  *)
(* appears anywhere else does not, and is never covered by those findings. *)
(*   aGRAPA : the draws so far are all equal (zero variance) and equal the *)
(*            null conditional mean of the next draw;                      *)
(*   KK     : padded null conditional mean exactly 0;                      *)
(*   SPRT   : null conditional mean exactly 0 or u.                        *)
(***************************************************************************)
IsAgrapa(r) == "family" \in DOMAIN r.cfg /\ r.cfg.family = "agrapa"
RuleUndefAt(c, r, xs, sts, j) ==
    LET s0 == IF j = 1 THEN St0 ELSE sts[j - 1]
        m  == Mu(c, j, s0.S)
    IN  CASE c.method = "BETTING" /\ IsAgrapa(r) -> j >= 2 /\ (\A q \in 1..(j - 1) : REq(xs[q], xs[1])) /\ REq(xs[1], m)
          [] c.method = "KK"   -> RIsZero(RAdd(m, c.g))       \* a factor with denominator 0 (0/0, or 0 * infinity downstream)
          [] c.method = "SPRT" -> RIsZero(m) \/ REq(m, c.u)
          [] OTHER -> FALSE
RuleUndefBy(c, r, xs, sts, k) == \E j \in 1..k : RuleUndefAt(c, r, xs, sts, j)
NanTag(c, r, xs, sts, k) == IF RuleUndefBy(c, r, xs, sts, k) THEN ":undefined-rule" ELSE ""

\* the alternative / bet the code applied to draw k ("undef" if not a number, "none" if the method has none)
LoggedE(c, r, k) ==
    IF ~UsesEst(c) \/ c.method = "SPRT" THEN "none"
    ELSE IF k > Len(r.out.est) THEN "undef"
    ELSE IF IsNum(r.out.est[k]) THEN Num(r.out.est[k]) ELSE "undef"

RECURSIVE StSeq(_, _, _, _)
StSeq(c, r, xs, k) ==
    IF k = 0 THEN <<>>
    ELSE LET prev == StSeq(c, r, xs, k - 1)
             s0   == IF k = 1 THEN St0 ELSE prev[k - 1]
         IN  Append(prev, StNext(c, s0, k, xs[k], EstUsed(c, xs, k, LoggedE(c, r, k))))

(***************************************************************************)
(* Per-record clauses.                                                     *)
(***************************************************************************)
StepClauses(c, r, xs, sts, k) ==
    LET n   == Len(xs)
        s0  == IF k = 1 THEN St0 ELSE sts[k - 1]
        s2  == sts[k]
        m   == Mu(c, k, s0.S)
        lst == k = n /\ LastOverride(c, n, s2.S)
        exp == IF lst THEN Zero ELSE PStep(c, m, s2.T)
        dem == lst \/ Demands(c, s2, m)
        ps  == r.out.ph[k]
        e   == LoggedE(c, r, k)
        mHalfOpen == RLt(Zero, m) /\ RLe(m, c.u)
        statC == IF dem /\ ~(IsNum(ps) /\ RClose(Num(ps), exp, TolP, TolP))
                 THEN {IF lst THEN "stat:last" ELSE IF RegionDecides(c, m) THEN "stat:region" ELSE "stat:product"}
                 ELSE {}
        unitC == IF ~IsNum(ps) THEN {"unit:" \o ps \o NanTag(c, r, xs, sts, k)}
                 ELSE IF RLt(Num(ps), Zero) THEN {"unit:neg"}
                 ELSE IF RLt(One, Num(ps)) THEN {"unit:gt1"} ELSE {}
        rangeC == IF ~UsesEst(c) \/ c.method = "SPRT" \/ ~mHalfOpen THEN {}
                  ELSE IF e = "undef" THEN {"range:nonnum" \o (IF RuleUndefAt(c, r, xs, sts, k) THEN ":undefined-rule" ELSE "")}
                  ELSE IF IsEtaMethod(c)
                       THEN (IF RLt(e, RNeg(TolS)) THEN {"range:eta<0"} ELSE {})
                            \cup (IF ~LeTol(e, c.u) THEN {"range:eta>u"} ELSE {})
                            \cup (IF c.estim = "shrink" /\ RLt(m, c.u) /\ ~RLt(m, e) THEN {"range:shrink<=m"} ELSE {})
                       ELSE (IF RLt(e, RNeg(TolS)) THEN {"range:lam<0"} ELSE {})
                            \cup (IF ~LeTol(RMul(e, m), One) THEN {"range:lam>1/m"} ELSE {})
        validC == IF ~UsesEst(c) \/ c.method = "SPRT" \/ Region(c, m) # "in" THEN {}
                  ELSE IF e = "undef" THEN (IF r.out.est[k] = "nan" THEN {} ELSE {"valid"})   \* a NaN bet never rejects
                  ELSE IF (IF IsEtaMethod(c) THEN LeTol(m, e) /\ LeTol(e, c.u)
                           ELSE LeTol(Zero, e) /\ LeTol(RMul(e, m), One)) THEN {}
                  ELSE LET d == Est(c, xs, k) IN
                       IF d # "undef" /\ RClose(e, d, TolP, TolP) THEN {} ELSE {"valid"}
        \* the fixed bet is, by definition, the configured lambda at every draw
        ruleC == IF c.method = "BETTING" /\ c.estim = "fixedbet" /\ (e = "undef" \/ ~RClose(e, c.lam, TolS, TolS))
                 THEN {"rule:fixedbet"} ELSE {}
    IN  statC \cup unitC \cup rangeC \cup validC \cup ruleC

OwnClauses(c, r) ==
    IF ~HasOut(r) THEN {"exc:" \o r.exc.type \o "@" \o r.exc.site}
    ELSE LET xs == XS(r)
             n  == Len(xs)
         IN  IF Len(r.out.ph) # n \/ (UsesEst(c) /\ c.method # "SPRT" /\ Len(r.out.est) # n) THEN {"len"}
             ELSE LET sts == StSeq(c, r, xs, n)
                      hs  == r.out.ph
                      allnum == \A k \in 1..n : IsNum(hs[k])
                      pC  == IF ~IsNum(r.out.p) THEN {"unitp:" \o r.out.p \o NanTag(c, r, xs, sts, n)}
                             ELSE IF RLt(Num(r.out.p), Zero) THEN {"unitp:neg"}
                             ELSE IF RLt(One, Num(r.out.p)) THEN {"unitp:gt1"} ELSE {}
                      ovC == IF allnum /\ IsNum(r.out.p) THEN
                                LET RECURSIVE Mn(_)
                                    Mn(k) == IF k = 1 THEN Num(hs[1]) ELSE RMin(Num(hs[k]), Mn(k - 1))
                                    want == IF c.ro THEN Mn(n) ELSE Num(hs[n])
                                IN  IF RClose(Num(r.out.p), want, TolS, TolS) THEN {}
                                    ELSE {IF c.ro THEN "overall:min" ELSE "overall:last"}
                             ELSE {}
                  IN  pC \cup ovC \cup UNION {StepClauses(c, r, xs, sts, k) : k \in 1..n}

(***************************************************************************)
(* Clauses against the chain of prefixes (C05).  stack[k] holds the record *)
(* of the sample x[1..k] together with what its first recorded one-draw    *)
(* extension reported at position k and bet on draw k+1.                   *)
(***************************************************************************)
Entry(r) == [x |-> r.x, has |-> HasOut(r), ph |-> IF HasOut(r) THEN r.out.ph ELSE <<>>,
             est |-> IF HasOut(r) THEN r.out.est ELSE <<>>, nextest |-> "unset", contph |-> "unset"]

ChainClauses(c, r, stk) ==
    LET n == Len(r.x) IN
    IF n = 1 \/ ~HasOut(r) THEN {}
    ELSE IF Len(stk) < n - 1 \/ stk[n - 1].x # SubSeq(r.x, 1, n - 1) THEN {"nocontext"}
    ELSE LET q == stk[n - 1] IN
         IF ~q.has \/ Len(q.ph) # n - 1 \/ Len(r.out.ph) # n THEN {}
         ELSE
           LET useE == UsesEst(c) /\ c.method # "SPRT" /\ Len(r.out.est) = n /\ Len(q.est) = n - 1
               pEst == IF useE /\ \E k \in 1..(n - 1) : ~SameNum(r.out.est[k], q.est[k])
                       THEN {"predictable:est"} ELSE {}
               pSib == IF useE /\ q.nextest # "unset" /\ ~SameNum(r.out.est[n], q.nextest)
                       THEN {"predictable:nextbet"} ELSE {}
               pPh  == IF \E k \in 1..(n - 2) : ~SameNum(r.out.ph[k], q.ph[k])
                       THEN {"predictable:history"} ELSE {}
               pCont == IF q.contph # "unset" /\ ~SameNum(r.out.ph[n - 1], q.contph)
                        THEN {"predictable:history"} ELSE {}
               a == q.ph[n - 1]                 \* the sample stopped at n-1
               b == r.out.ph[n - 1]             \* the sample went on
               tot == PSum(XS(r), n - 1)
               over == c.N # 0 /\ RLt(RMul(RNat(c.N), c.t), tot)
               pfx == IF ~IsNum(a) \/ ~IsNum(b) THEN {}       \* not a number: C11's business, no demand here
                      ELSE IF ~LeTol(Num(a), Num(b)) THEN {"prefix:raised"}
                      ELSE IF ~SameNum(a, b) /\ ~over THEN {"prefix:lowered"} ELSE {}
           IN  pEst \cup pSib \cup pPh \cup pCont \cup pfx

NewStack(r, stk) ==
    LET n == Len(r.x) IN
    IF n = 0 \/ Len(stk) < n - 1 THEN <<>>
    ELSE LET base == SubSeq(stk, 1, n - 1)
             upd  == IF n >= 2 /\ HasOut(r) /\ base[n - 1].nextest = "unset" /\ Len(r.out.ph) = n
                     THEN [base EXCEPT ![n - 1].nextest = IF Len(r.out.est) = n THEN r.out.est[n] ELSE "unset",
                                       ![n - 1].contph  = r.out.ph[n - 1]]
                     ELSE base
         IN  Append(upd, Entry(r))

(***************************************************************************)
(* C12: the two conversion functions against LamToEta / EtaToLam, and the  *)
(* ALPHA run driven by eta = m(1 + lam(u - m)) against the betting run.    *)
(***************************************************************************)
ConvClauses(r) ==
    LET u == Num(r.u)  m == Num(r.m)  l == Num(r.lam)  e == Num(r.eta) IN
    (IF IsNum(r.eta_of_lam) /\ RClose(Num(r.eta_of_lam), LamToEta(u, l, m), TolS, TolP) THEN {} ELSE {"conv:lam_to_eta"})
    \cup (IF IsNum(r.lam_of_eta) /\ RClose(Num(r.lam_of_eta), EtaToLam(u, e, m), TolS, TolP) THEN {} ELSE {"conv:eta_to_lam"})
    \cup (IF IsNum(r.lam_back) /\ RClose(Num(r.lam_back), l, TolP, TolP) THEN {} ELSE {"conv:inverse"})
    \cup (IF IsNum(r.eta_back) /\ RClose(Num(r.eta_back), e, TolP, TolP) THEN {} ELSE {"conv:inverse"})
EquivClauses(r) ==
    IF "exc" \in DOMAIN r THEN {"exc:" \o r.exc.type \o "@" \o r.exc.site}
    ELSE IF Len(r.ph_alpha) # Len(r.ph_bet) THEN {"equiv:len"}
    ELSE (IF \E k \in 1..Len(r.ph_alpha) :
               ~(r.ph_alpha[k] = r.ph_bet[k]
                 \/ (IsNum(r.ph_alpha[k]) /\ IsNum(r.ph_bet[k]) /\ RClose(Num(r.ph_alpha[k]), Num(r.ph_bet[k]), TolP, TolP)))
          THEN {"equiv:history"} ELSE {})
         \cup (IF r.p_alpha = r.p_bet \/ (IsNum(r.p_alpha) /\ IsNum(r.p_bet) /\ RClose(Num(r.p_alpha), Num(r.p_bet), TolP, TolP))
               THEN {} ELSE {"equiv:p"})

Verdict(r, stk) ==
    IF r.kind = "conv" THEN ConvClauses(r)
    ELSE IF r.kind = "equiv" THEN EquivClauses(r)
    ELSE LET c == Cfg(r) IN OwnClauses(c, r) \cup ChainClauses(c, r, stk)

TraceInit == i = 1 /\ stack = <<>>
TraceNext ==
    \/ /\ i <= NRec
       /\ LET r == TraceRecs[i]
              v == Verdict(r, stack)
          IN  /\ IF v = {} THEN TRUE ELSE PrintT("REJ " \o ToJson([tid |-> r.tid, clauses |-> v]))
              /\ stack' = IF r.kind = "run" THEN NewStack(r, stack) ELSE <<>>
       /\ i' = i + 1
    \/ /\ i = NRec + 1
       /\ PrintT("ACC " \o ToString(NRec))
       /\ i' = i + 1
       /\ UNCHANGED stack
TraceSpec == TraceInit /\ [][TraceNext]_tvars
TraceAccepted == TLCGet("stats").diameter = NRec + 2
=============================================================================
