------------------------------ MODULE PhantomsMC ------------------------------
EXTENDS Phantoms, Json

CONSTANTS Cons,        \* sequence of contests (dictionary order)
          MaxCvrs, Slack

ConSet == {Cons[k] : k \in 1..Len(Cons)}
VARIABLES cvrs,        \* sequence of styles (sets of contests) of the real CVRs
          bounds,      \* bounds[c]: upper bound on cards containing c, or NoBound
          maxCards, style,
          pv,          \* phantom styles built so far
          todo,        \* contests still to process
          pc           \* "build" (choosing the input), "loop", "done"
vars == <<cvrs, bounds, maxCards, style, pv, todo, pc>>

Init == /\ cvrs = <<>> /\ bounds = [c \in ConSet |-> NoBound] /\ maxCards = 0 /\ style \in BOOLEAN
        /\ pv = <<>> /\ todo = Cons /\ pc = "build"
\* input construction: add a CVR of any style, then fix the bounds
AddCvr(s) == pc = "build" /\ Len(cvrs) < MaxCvrs /\ cvrs' = Append(cvrs, s)
             /\ UNCHANGED <<bounds, maxCards, style, pv, todo, pc>>
FixBounds(b, m) ==
    /\ pc = "build"
    /\ m \in Len(cvrs)..(Len(cvrs) + Slack)
    /\ \A c \in ConSet : b[c] = NoBound \/ b[c] \in Listing(cvrs, c)..(Listing(cvrs, c) + Slack)
    /\ \A c \in ConSet : b[c] = NoBound => m >= Listing(cvrs, c)
    /\ bounds' = b /\ maxCards' = m /\ pc' = "loop"
    /\ UNCHANGED <<cvrs, style, pv, todo>>
\* the code's loop
Block == pc = "loop" /\ ~style /\ pv' = [k \in 1..(maxCards - Len(cvrs)) |-> {}] /\ pc' = "done"
         /\ UNCHANGED <<cvrs, bounds, maxCards, style, todo>>
PerContest ==
    /\ pc = "loop" /\ style /\ todo # <<>>
    /\ LET c == Head(todo) IN pv' = Iter(pv, c, CardsOf(bounds[c], maxCards, TRUE) - Listing(cvrs, c))
    /\ todo' = Tail(todo) /\ UNCHANGED <<cvrs, bounds, maxCards, style, pc>>
Finish == pc = "loop" /\ style /\ todo = <<>> /\ pc' = "done" /\ UNCHANGED <<cvrs, bounds, maxCards, style, pv, todo>>
Next == \/ \E s \in SUBSET ConSet : AddCvr(s)
        \/ \E m \in 0..(MaxCvrs + Slack) :
             \E b \in [ConSet -> {NoBound} \cup (0..(MaxCvrs + Slack))] : FixBounds(b, m)
        \/ Block \/ PerContest \/ Finish
Spec == Init /\ [][Next]_vars

Done == pc = "done"
All == cvrs \o pv
Accounting ==
    Done => IF style THEN \A c \in ConSet : Listing(All, c) = CardsOf(bounds[c], maxCards, TRUE)
            ELSE Len(All) = maxCards
Shortfall(c) == CardsOf(bounds[c], maxCards, TRUE) - Listing(cvrs, c)
NoMoreThanLargestShortfall ==
    Done => IF style
            THEN (\A c \in ConSet : Len(pv) >= Shortfall(c))
                 /\ (Len(pv) > 0 => \E c \in ConSet : Len(pv) = Shortfall(c))
            ELSE Len(pv) = maxCards - Len(cvrs)
OriginalsFirst == Done => SubSeq(All, 1, Len(cvrs)) = cvrs
LoopAgrees == Done => pv = Final(Cons, cvrs, bounds, maxCards, style)
Emit == Done => PrintT("BEH " \o ToJson([cvrs |-> cvrs, bounds |-> bounds, maxCards |-> maxCards, style |-> style]))
=============================================================================
