---------------------------- MODULE RatSelfTest ----------------------------
(* Differential self-test of the Rat override: evaluated once with Rat.class  *)
(* on the module path and once without; bin/setup compares the two printouts. *)
EXTENDS Rat, Integers, Sequences, TLC
Vals == {R(n, d) : n \in -6..6, d \in {1, 2, 3, 4, 8}}
Line(a, b) == <<RStr(a), RStr(b), RStr(RAdd(a, b)), RStr(RSub(a, b)), RStr(RMul(a, b)),
                IF RIsZero(b) THEN "-" ELSE RStr(RDiv(a, b)),
                RLe(a, b), RLt(a, b), REq(a, b), RStr(RMin(a, b)), RStr(RMax(a, b)),
                RStr(RAbs(a)), RStr(RNeg(a)), RSign(a), RFloor(a),
                RClose(a, b, R(1, 2), R(1, 10))>>
ASSUME PrintT("OVERRIDDEN " \o ToString(RatOverridden))
ASSUME \A a \in Vals : \A b \in Vals : PrintT("ST " \o ToString(Line(a, b)))
ASSUME \A a \in {R(-3, 4), R(5, 1), R(0, 1), R(7, 8)} : PrintT("PARSE " \o RStr(RParse(RStr(a))))
ASSUME PrintT("CONSTS " \o ToString(<<RStr(Zero), RStr(One), RStr(Half), RStr(RNat(7))>>))
VARIABLE x
Init == x = 0
Next == UNCHANGED x
=============================================================================
