------------------------------- MODULE Ballots -------------------------------
(***************************************************************************)
(* Ballots, tallies and assorters for plurality / approval / k-winner and  *)
(* super-majority contests (SHANGRLA's Assertion.make_plurality_assertions,*)
(* make_supermajority_assertion, Assorter.mean, Assertion.margin,          *)
(* Contest.tally, Assertion.find_margin_from_tally).                       *)
(*                                                                         *)
(* A ballot is [has |-> does the card contain the contest, m |-> the set  *)
(* of candidates it marks].  The state machine adds one ballot at a time    *)
(* (in canonical order, so every multiset is reached once) and maintains   *)
(* the tallies and the assorter sums incrementally; the listed property    *)
(* C02 is stated as invariants relating the two.                           *)
(***************************************************************************)
EXTENDS Rat, Integers, Sequences, FiniteSets, TLC

(***************************************************************************)
(* Definitions shared with Trace_Ballots (functions of a ballot sequence). *)
(***************************************************************************)
Has(b) == b.has
Mark(b, c) == IF Has(b) /\ c \in b.m THEN 1 ELSE 0
OneVote(b, cands) == Has(b) /\ Cardinality(b.m \cap cands) = 1

\* plurality assorter for (w, l): (mark_w - mark_l + 1)/2 ; a card without the contest scores 1/2
PlurAssort(b, w, l) == R(Mark(b, w) - Mark(b, l) + 1, 2)
\* super-majority assorter: valid vote for w -> 1/(2f); other valid vote -> 0; anything else -> 1/2
SuperAssort(b, w, cands, f) ==
    IF OneVote(b, cands) THEN (IF w \in b.m THEN RDiv(One, RMul(RNat(2), f)) ELSE Zero) ELSE Half

RECURSIVE RSumSeq(_, _)
RSumSeq(vals, k) == IF k = 0 THEN Zero ELSE RAdd(RSumSeq(vals, k - 1), vals[k])
CountIf(bs, P(_)) == Cardinality({k \in 1..Len(bs) : P(bs[k])})
NCards(bs, style) == IF style THEN CountIf(bs, Has) ELSE Len(bs)
\* mean of an assorter over the cards (only those containing the contest when style is used)
MeanOf(bs, style, F(_)) ==
    RDiv(RSumSeq([k \in 1..Len(bs) |-> IF style /\ ~Has(bs[k]) THEN Zero ELSE F(bs[k])], Len(bs)),
         RNat(NCards(bs, style)))
Marks(bs, c) == CountIf(bs, LAMBDA b : Mark(b, c) = 1)
\* tally with the rule "a ballot with more than k marks counts for nobody"
RuleMarks(bs, c, cands, k) == CountIf(bs, LAMBDA b : Mark(b, c) = 1 /\ Cardinality(b.m \cap cands) <= k)
Overvoted(bs, cands, k) == \E i \in 1..Len(bs) : Has(bs[i]) /\ Cardinality(bs[i].m \cap cands) > k
Valid(bs, cands) == CountIf(bs, LAMBDA b : OneVote(b, cands))
ValidFor(bs, c, cands) == CountIf(bs, LAMBDA b : OneVote(b, cands) /\ c \in b.m)

\* margins from tallies, as documented
PlurTallyMargin(mw, ml, cards) == R(mw - ml, cards)
SuperTallyMargin(vw, valid, cards, f) ==      \* q (p/f - 1), p = share of the VALID votes
    IF valid = 0 THEN Zero
    ELSE RMul(R(valid, cards), RSub(RDiv(R(vw, valid), f), One))
=============================================================================
