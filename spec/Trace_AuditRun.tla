---------------------------- MODULE Trace_AuditRun ----------------------------
(***************************************************************************)
(* The audit as one state machine (DESIGN.md section 0), validated on      *)
(* traces of the documented workflow run end to end through the real API:  *)
(*   make_phantoms -> make_all_assertions -> set_all_margins_from_cvrs ->  *)
(*   [ consistent_sampling -> Dominion.sample_from_cvrs ->                 *)
(*     prep_comparison_sample -> set_p_values -> summarize_status ]*       *)
(* One event per call.  The specification state (cards incl. phantoms,     *)
(* margins, thresholds, selection, per-assertion data, risks, confirmed    *)
(* flags) advances through the operators of Phantoms, Comparison and       *)
(* Sampling and the rules of AuditFlow; every logged projection must equal *)
(* it.  This is the composition of the per-module specifications: what one *)
(* call produces is what the next one consumes.                            *)
(*                                                                         *)
(* With tally pools (ONEAudit) the workflow starts with the padding step    *)
(* pool_contests / add_pool_contests and sets the pool means before the    *)
(* margins; a pooled CVR is then scored by its pool's mean.                *)
(*                                                                         *)
(* Contests are plurality contests with candidates W (reported winner), L, *)
(* X; each has the assertions "W v L" and "W v X".  A card's vote in a     *)
(* contest is "W", "L", "X" or "none"; a manual record may also be         *)
(* "missing" (lacks the contest) or "unfound" (phantom record).            *)
(***************************************************************************)
EXTENDS Rat, Integers, Sequences, FiniteSets, TLC, Json, IOUtils, TLCExt, SequencesExt

Ph == INSTANCE Phantoms
Sa == INSTANCE Sampling

TraceRecs == ndJsonDeserialize(IOEnv.TRACE_FILE)
NRec == Len(TraceRecs)
VARIABLES i, cons, styles, phantom, pool, votes, margin, order, thr, sel, data, risk, proved, nround
tvars == <<i, cons, styles, phantom, pool, votes, margin, order, thr, sel, data, risk, proved, nround>>

Tol == RParse("1/1000000000")
IsNum(s) == s \notin {"nan", "inf", "-inf", "exc"}
Close(s, v) == IsNum(s) /\ RClose(RParse(s), v, Tol, Tol)
Asns == {"W v L", "W v X"}
Loser(a) == IF a = "W v L" THEN "L" ELSE "X"
\* plurality assorter of assertion a on a vote
Val(a, v) == IF v = "W" THEN One ELSE IF v = Loser(a) THEN Zero ELSE Half
Report(e, v) == IF v = {} THEN TRUE ELSE PrintT("REJ " \o ToJson([tid |-> e.tid, clauses |-> v]))
IdxSeq(s) == [k \in 1..Len(s) |-> s[k] + 1]
RECURSIVE RSumSeq(_, _)
RSumSeq(vals, k) == IF k = 0 THEN Zero ELSE RAdd(RSumSeq(vals, k - 1), vals[k])
Listing(c) == {k \in 1..Len(styles) : c \in styles[k]}
\* reported assorter margin of assertion a of contest c: twice the mean over the cards listing c, minus one
\* (a phantom card has no votes: 1/2)
MarginOf(sty, vts, c, a) ==
    LET L == {k \in 1..Len(sty) : c \in sty[k]}
        vals == [k \in 1..Len(sty) |-> IF k \in L THEN Val(a, vts[k][c]) ELSE Zero]
    IN  RSub(RMul(RNat(2), RDiv(RSumSeq(vals, Len(sty)), RNat(Cardinality(L)))), One)
\* ONEAudit: the CVRs of a tally pool stand for the pool's mean; before anything else every pooled CVR of a pool is made
\* to list every contest some pooled CVR of that pool lists (CVR.pool_contests / add_pool_contests)
PadStyles(sty, pl) ==
    [k \in 1..Len(sty) |-> IF pl[k] = "none" THEN sty[k] ELSE UNION {sty[j] : j \in {j \in 1..Len(sty) : pl[j] = pl[k]}}]
PoolCards(c, p) == {k \in 1..Len(styles) : pool[k] = p /\ c \in styles[k]}
PoolMeanOf(c, a, p) ==
    LET vals == [k \in 1..Len(styles) |-> IF k \in PoolCards(c, p) THEN Val(a, votes[k][c]) ELSE Zero]
    IN  RDiv(RSumSeq(vals, Len(styles)), RNat(Cardinality(PoolCards(c, p))))
\* overstatement assorter of card k for (c, a) given what the manual record shows (assorter bound 1)
BVal(c, a, k, mv) ==
    LET cv == IF pool[k] # "none" THEN PoolMeanOf(c, a, pool[k]) ELSE IF phantom[k] THEN Half ELSE Val(a, votes[k][c])
        mm == IF mv \in {"unfound", "missing"} THEN Zero ELSE Val(a, mv)
    IN  RDiv(RSub(One, RSub(cv, mm)), RSub(RNat(2), margin[c][a]))

TraceInit == /\ i = 1 /\ cons = <<>> /\ styles = <<>> /\ phantom = <<>> /\ pool = <<>> /\ votes = <<>> /\ margin = <<>> /\ order = <<>>
             /\ thr = <<>> /\ sel = <<>> /\ data = <<>> /\ risk = <<>> /\ proved = <<>> /\ nround = 0

EvPhantoms(e) ==
    /\ e.act = "phantoms"
    /\ LET cs == e.cons
           raw == [k \in 1..Len(e.styles) |-> ToSet(e.styles[k])]
           cv == IF e.padded THEN PadStyles(raw, e.pools) ELSE raw
           want == Ph!Final(cs, cv, e.bounds, e.maxCards, TRUE)
           o == e.out
           got == [k \in 1..Len(o.styles) |-> ToSet(o.styles[k])]
       IN  /\ Report(e, IF "exc" \in DOMAIN e THEN {"exc:" \o e.exc.type \o "@" \o e.exc.site}
                        ELSE (IF got = cv \o want THEN {} ELSE {"phantoms:styles"})
                             \cup (IF o.phantom = [k \in 1..Len(got) |-> k > Len(cv)] THEN {} ELSE {"phantoms:flags"})
                             \cup (IF \A c \in ToSet(cs) : Cardinality({k \in 1..Len(got) : c \in got[k]}) = Ph!CardsOf(e.bounds[c], e.maxCards, TRUE)
                                   THEN {} ELSE {"phantoms:accounting"}))
           /\ cons' = cs
           /\ styles' = IF "exc" \in DOMAIN e THEN cv ELSE got
           /\ phantom' = IF "exc" \in DOMAIN e THEN [k \in 1..Len(cv) |-> FALSE] ELSE o.phantom
           /\ pool' = IF "exc" \in DOMAIN e THEN e.pools
                       ELSE [k \in 1..Len(got) |-> IF k <= Len(e.pools) THEN e.pools[k] ELSE "none"]
           /\ votes' = e.votes              \* per card: contest -> vote (phantoms: "none")
           /\ order' = IdxSeq(e.order)
    /\ margin' = <<>> /\ thr' = [c \in ToSet(e.cons) |-> 0] /\ sel' = <<>>
    /\ data' = [c \in ToSet(e.cons) |-> [a \in Asns |-> <<>>]]
    /\ risk' = [c \in ToSet(e.cons) |-> [a \in Asns |-> One]]
    /\ proved' = [c \in ToSet(e.cons) |-> [a \in Asns |-> FALSE]] /\ nround' = 0

EvMargins(e) ==
    /\ e.act = "margins"
    /\ LET want == [c \in ToSet(cons) |-> [a \in Asns |-> MarginOf(styles, votes, c, a)]]
           o == e.out
       IN  /\ Report(e, IF "exc" \in DOMAIN e THEN {"exc:" \o e.exc.type \o "@" \o e.exc.site}
                        ELSE (IF \A c \in ToSet(cons) : \A a \in Asns : Close(o.margin[c][a], want[c][a]) THEN {} ELSE {"margins:margin"})
                             \cup (IF \A c \in ToSet(cons) : \A a \in Asns :
                                        Close(o.u[c][a], RDiv(RNat(2), RSub(RNat(2), want[c][a]))) THEN {} ELSE {"margins:bound"})
                             \cup (IF \A c \in ToSet(cons) : \A a \in Asns : \A p \in DOMAIN o.pool_means[c][a] :
                                        PoolCards(c, p) # {} => Close(o.pool_means[c][a][p], PoolMeanOf(c, a, p))
                                   THEN {} ELSE {"margins:pool_mean"}))
           /\ margin' = want
    /\ UNCHANGED <<cons, styles, phantom, pool, votes, order, thr, sel, data, risk, proved, nround>>

EvRound(e) ==
    /\ e.act = "round"
    /\ LET size == e.sizes
           w == Sa!Walk(styles, order, size, Sa!Start("redraw", styles, size, thr, sel))
           o == e.out
           isExc == "exc" \in DOMAIN e
           oSel == IF isExc THEN <<>> ELSE IdxSeq(o.indices)
           cards(c) == Sa!DataFor(styles, order, w.sel, w.thr, c)
           wantData(c, a) == [j \in 1..Len(cards(c)) |-> BVal(c, a, cards(c)[j], e.mvr[cards(c)[j]][c])]
           lim == RParse(e.limit)
           cl ==
             IF isExc THEN {"exc:" \o e.exc.type \o "@" \o e.exc.site}
             ELSE (IF oSel = w.sel THEN {} ELSE {"round:indices"})
                  \cup (IF \A c \in ToSet(cons) : o.thr[c] = w.thr[c] THEN {} ELSE {"round:thr"})
                  \cup (IF \A c \in ToSet(cons) : \A a \in Asns :
                             Len(o.data[c][a]) = Len(cards(c)) /\ \A j \in 1..Len(cards(c)) : Close(o.data[c][a][j], wantData(c, a)[j])
                        THEN {} ELSE {"round:data"})
                  \cup (IF \A c \in ToSet(cons) : \A a \in Asns : Close(o.u[c][a], RDiv(RNat(2), RSub(RNat(2), margin[c][a])))
                        THEN {} ELSE {"round:bound"})
                  \* status bookkeeping on the code's own p-values (AuditFlow's rules)
                  \cup (IF \A c \in ToSet(cons) : \A a \in Asns :
                             IsNum(o.p[c][a]) /\ o.proved[c][a] = (proved[c][a] \/ (Len(cards(c)) > 0 /\ RLe(RParse(o.p[c][a]), lim)))
                        THEN {} ELSE {"round:proved"})
                  \cup (IF \A c \in ToSet(cons) : \A a \in Asns : IsNum(o.p[c][a]) /\ RLe(RParse(o.p[c][a]), RAdd(risk[c][a], Tol))
                        THEN {} ELSE {"round:risk_monotone"})
                  \cup (IF o.done = (\A c \in ToSet(cons) : \A a \in Asns : IsNum(o.p[c][a]) /\ RLe(RParse(o.p[c][a]), lim))
                        THEN {} ELSE {"round:done"})
                  \cup (IF \A c \in ToSet(cons) : \A a \in Asns : Sa!IsPrefixOf(data[c][a], o.data[c][a]) THEN {} ELSE {"round:extends"})
       IN  /\ Report(e, cl)
           /\ IF isExc THEN UNCHANGED <<thr, sel, data, risk, proved>>
              ELSE /\ thr' = [c \in ToSet(cons) |-> o.thr[c]] /\ sel' = oSel
                   /\ data' = [c \in ToSet(cons) |-> [a \in Asns |-> o.data[c][a]]]
                   /\ risk' = [c \in ToSet(cons) |-> [a \in Asns |-> IF IsNum(o.p[c][a]) THEN RParse(o.p[c][a]) ELSE risk[c][a]]]
                   /\ proved' = [c \in ToSet(cons) |-> [a \in Asns |-> o.proved[c][a]]]
    /\ nround' = nround + 1
    /\ UNCHANGED <<cons, styles, phantom, pool, votes, margin, order>>

TraceNext ==
    \/ /\ i <= NRec
       /\ LET e == TraceRecs[i] IN EvPhantoms(e) \/ EvMargins(e) \/ EvRound(e)
       /\ i' = i + 1
    \/ /\ i = NRec + 1 /\ PrintT("ACC " \o ToString(NRec)) /\ i' = i + 1
       /\ UNCHANGED <<cons, styles, phantom, pool, votes, margin, order, thr, sel, data, risk, proved, nround>>
TraceSpec == TraceInit /\ [][TraceNext]_tvars
TraceAccepted == TLCGet("stats").diameter = NRec + 2
=============================================================================
