------------------------------- MODULE Sampling -------------------------------
(***************************************************************************)
(* Consistent sampling (CVR.consistent_sampling) and the data each contest *)
(* sees afterwards (sample_from_cvrs -> prep_comparison_sample ->          *)
(* Assertion.mvrs_to_data), over several rounds.                           *)
(*                                                                         *)
(*   styles[k]  the set of contests card k (list position k) lists         *)
(*   order[r]   the list position of the card with the r-th smallest       *)
(*              sample number (r = its rank)                               *)
(*   size[c]    the contest's sample size                                  *)
(* The walk visits cards in rank order; a card is taken iff it lists a     *)
(* contest still in progress; every in-progress contest it lists advances  *)
(* its count and moves its threshold to that card's sample number (here:   *)
(* rank; 0 = no threshold yet).                                            *)
(* Two ways to start a later round:                                        *)
(*   redraw    from scratch with the larger sizes;                         *)
(*   continue  as the code does when handed the previous indices: counts   *)
(*             pre-loaded with every previously selected card listing the  *)
(*             contest, walk resumed at position Len(previous)+1.          *)
(***************************************************************************)
EXTENDS Integers, Sequences, FiniteSets, TLC

Range(f) == {f[k] : k \in DOMAIN f}
InProgress(cnt, size) == {c \in DOMAIN size : cnt[c] < size[c]}

\* one iteration of the loop body at position pos (precondition: something in progress, pos <= Len(order))
StepAt(styles, order, size, w) ==
    LET k   == order[w.pos]
        hit == {c \in InProgress(w.cnt, size) : c \in styles[k]}
    IN  IF hit = {} THEN [w EXCEPT !.pos = @ + 1]
        ELSE [pos |-> w.pos + 1,
              cnt |-> [c \in DOMAIN size |-> IF c \in hit THEN w.cnt[c] + 1 ELSE w.cnt[c]],
              thr |-> [c \in DOMAIN size |-> IF c \in hit THEN w.pos ELSE w.thr[c]],
              sel |-> Append(w.sel, k), crashed |-> FALSE]
\* the whole walk
RECURSIVE Walk(_, _, _, _)
Walk(styles, order, size, w) ==
    IF InProgress(w.cnt, size) = {} THEN w
    ELSE IF w.pos > Len(order) THEN [w EXCEPT !.crashed = TRUE]         \* the code indexes past the list: IndexError
    ELSE Walk(styles, order, size, StepAt(styles, order, size, w))

Start(variant, styles, size, thr, prevSel) ==
    IF variant = "redraw"
    THEN [pos |-> 1, cnt |-> [c \in DOMAIN size |-> 0], thr |-> thr, sel |-> <<>>, crashed |-> FALSE]
    ELSE [pos |-> Len(prevSel) + 1,
          cnt |-> [c \in DOMAIN size |-> Cardinality({j \in 1..Len(prevSel) : c \in styles[prevSel[j]]})],
          thr |-> thr, sel |-> prevSel, crashed |-> FALSE]

RankOf(order, k) == CHOOSE r \in 1..Len(order) : order[r] = k
\* what contest c's assertions are handed: the selected cards listing c within c's threshold, in selection order
DataFor(styles, order, sel, thr, c) ==
    SelectSeq(sel, LAMBDA k : c \in styles[k] /\ RankOf(order, k) <= thr[c])

\* declarative side (C07): the first n cards listing c in rank order
RECURSIVE FirstN(_, _, _, _, _)
FirstN(styles, order, c, n, r) ==
    IF n = 0 \/ r > Len(order) THEN <<>>
    ELSE IF c \in styles[order[r]] THEN <<order[r]>> \o FirstN(styles, order, c, n - 1, r + 1)
    ELSE FirstN(styles, order, c, n, r + 1)
Avail(styles, c) == Cardinality({k \in 1..Len(styles) : c \in styles[k]})
UnionFirst(styles, order, size) == UNION {Range(FirstN(styles, order, c, size[c], 1)) : c \in DOMAIN size}
SortedByRank(order, sel) == \A a, b \in 1..Len(sel) : a < b => RankOf(order, sel[a]) < RankOf(order, sel[b])
NoRepeat(sel) == \A a, b \in 1..Len(sel) : a # b => sel[a] # sel[b]
IsPrefixOf(s, t) == Len(s) <= Len(t) /\ \A k \in 1..Len(s) : s[k] = t[k]
=============================================================================
