------------------------------- MODULE RaireMC -------------------------------
(***************************************************************************)
(* Every multiset of at most MaxBallots ranked ballots over Cands (ballots *)
(* added in canonical order).  Checked on each profile: the lemmas the     *)
(* binding of C04 / C15 relies on.  Emit prints the profile for the driver.*)
(***************************************************************************)
EXTENDS Raire, SequencesExt, Json

CONSTANTS Cands, MaxBallots, Fns

\* all duplicate-free rankings of every length 0..n
Rankings == UNION {{s \in [1..k -> Cands] : \A i, j \in 1..k : i # j => s[i] # s[j]} : k \in 0..Cardinality(Cands)}
Types == SetToSeq(Rankings)
NT == Len(Types)

VARIABLE ix
Profile == [k \in 1..Len(ix) |-> Types[ix[k]]]
Init == ix = <<>>
Add(t) == /\ Len(ix) < MaxBallots /\ (IF ix = <<>> THEN TRUE ELSE ix[Len(ix)] <= t) /\ ix' = Append(ix, t)
Next == \E t \in 1..NT : Add(t)

Total == Len(ix)
\* an audit is possible only for the unique possible IRV winner
OnlyTheWinner ==
    \A w \in Cands : AuditPossible(Profile, Cands, w) => PossibleWinners(Profile, Cands) = {w}
\* with nobody eliminated an NEN tally is the first-preference tally
NenFullSetIsFirstPref ==
    \A w \in Cands : \A l \in Cands \ {w} :
        TallyW(Profile, [kind |-> "NEN", w |-> w, l |-> l, elim |-> {}]) = Count(Profile, LAMBDA b : NebW(b, w))
\* the two forms of "least difficult sufficient set" agree (C15's statement vs. the order-wise optimum)
MinMaxDuality ==
    \A w \in Cands : AuditPossible(Profile, Cands, w) =>
        \A fn \in Fns : REq(Optimum(fn, Profile, Total, Cands, w), MinMaxOverSets(fn, Profile, Total, Cands, w))
\* a true assertion has a positive margin, so every difficulty is defined and positive
DifficultyDefined ==
    \A a \in TrueAsn(Profile, Cands) : \A fn \in Fns : RLt(Zero, Diff(fn, Profile, Total, a))
Emit == ix # <<>> => PrintT("BEH " \o ToJson(Profile))
=============================================================================
