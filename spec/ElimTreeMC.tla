------------------------------ MODULE ElimTreeMC ------------------------------
(* Assertion sets are built atom by atom in canonical order (every set of at most MaxAtoms atoms once). *)
EXTENDS ElimTree, SequencesExt, Json
CONSTANTS Cands, MaxAtoms

NebAtoms == {[kind |-> "NEB", w |-> p[1], l |-> p[2], elim |-> {}] : p \in {q \in Cands \X Cands : q[1] # q[2]}}
IrvAtoms == UNION {{[kind |-> "NEN", w |-> c, l |-> c, elim |-> E] : E \in SUBSET (Cands \ {c})} : c \in Cands}
Atoms == SetToSeq(NebAtoms \cup IrvAtoms)
NA == Len(Atoms)
VARIABLE ix
A == {Atoms[ix[k]] : k \in 1..Len(ix)}
Init == ix = <<>>
Add(t) == Len(ix) < MaxAtoms /\ (IF ix = <<>> THEN TRUE ELSE ix[Len(ix)] < t) /\ ix' = Append(ix, t)
Next == \E t \in 1..NA : Add(t)

\* C20
LeafIff == \A alt \in Cands : UnprunedOrders(A, Cands, alt) = Uncontradicted(A, Cands, alt)
\* a pruned node carries exactly the assertions that contradict every order passing through it, and is not below another pruned node
Above(n, k) == Cands \ {n.path[j] : j \in 1..k}        \* candidates still to be placed below position k of the path
AppliesHigher(n, a) == \E k \in 1..(Len(n.path) - 1) : a \in NebTags(A, n.path[k], Above(n, k)) \cup IrvTags(A, n.path[k], Above(n, k))
Through(n) == {o \in Perms(Cands) : \A k \in 1..Len(n.path) : o[Len(o) + 1 - k] = n.path[k]}
\* an assertion contradicts the node: every order through it is contradicted, it does not already apply higher up,
\* and an IRV assertion speaks about the moment exactly a.elim are gone
Decided(n, a) == (\A o \in Through(n) : Contradicts(a, o)) /\ (~AppliesHigher(n, a))
                 /\ ((a.kind = "NEN") => (a.elim = Above(n, Len(n.path))))
TagsExact ==
    \A alt \in Cands : \A n \in Tree(A, Cands, alt) :
        n.pruned => (((n.neb \cup n.irv) # {}) /\ ((n.neb \cup n.irv) = {a \in A : Decided(n, a)}))
Emit == PrintT("BEH " \o ToJson([atoms |-> [k \in 1..Len(ix) |-> [kind |-> Atoms[ix[k]].kind, w |-> Atoms[ix[k]].w, l |-> Atoms[ix[k]].l, elim |-> Atoms[ix[k]].elim]]]))
=============================================================================
