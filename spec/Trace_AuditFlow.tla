--------------------------- MODULE Trace_AuditFlow ---------------------------
(***************************************************************************)
(* Stateful trace validation for C09.  A trace is one TLC-generated        *)
(* behaviour of AuditFlowMC replayed into real Contest / Assertion objects *)
(* whose tests are stubs returning the behaviour's p-values; after every   *)
(* call (set_p_values, summarize_status, reset_p_values) the driver logs   *)
(* the projected state.  Each event must be the corresponding AuditFlow    *)
(* action taken from the current specification state, and the logged       *)
(* projection must equal the state the action produces.                    *)
(***************************************************************************)
EXTENDS AuditFlow, Json, IOUtils, TLCExt, SequencesExt

TraceRecs == ndJsonDeserialize(IOEnv.TRACE_FILE)
NRec == Len(TraceRecs)
VARIABLE i
tvars == <<vars, i>>

Tol == RParse("1/1000000000000")
Same(s, v) == s \notin {"nan", "inf", "-inf", "exc", "unset", "none"} /\ RClose(RParse(s), v, Tol, Tol)

ConfOf(e) == [a \in 1..Len(e.conf) |-> [con |-> e.conf[a].con, lim |-> RParse(e.conf[a].lim)]]
PsOf(e) == [a \in 1..Len(e.ps) |-> [p |-> RParse(e.ps[a].p), n |-> e.ps[a].n]]

\* compare the logged projection with a specification state (passed explicitly, so it can be the primed one)
Mismatch(e, cf, pp, hh, pr, mx, rt) ==
    LET o == e.post  n == Len(cf) IN
    (IF Len(o.p) = n /\ \A a \in 1..n : Same(o.p[a], pp[a]) THEN {} ELSE {"p_value"})
    \cup (IF Len(o.hlen) = n /\ \A a \in 1..n : o.hlen[a] = hh[a] /\ o.hist_same[a] THEN {} ELSE {"history"})
    \cup (IF Len(o.proved) = n /\ \A a \in 1..n : o.proved[a] = pr[a] THEN {} ELSE {"proved"})
    \cup (IF \A c \in ConsOf(cf) : (IF mx[c] = "unset" THEN o.maxp[c] = "unset" ELSE Same(o.maxp[c], mx[c])) THEN {} ELSE {"max_p"})
    \* the contest's own dictionaries exist only once set_p_values or reset_p_values has run
    \cup (IF Len(o.cpv) = n /\ \A a \in 1..n : (IF mx[cf[a].con] = "unset" THEN o.cpv[a] = "unset" ELSE Same(o.cpv[a], pp[a]))
          THEN {} ELSE {"contest_p_values"})
    \cup (IF Len(o.cpr) = n /\ \A a \in 1..n : (mx[cf[a].con] = "unset" \/ o.cpr[a] = pr[a]) THEN {} ELSE {"contest_proved"})
    \cup (IF e.act = "setp" THEN (IF Same(o.ret, rt) THEN {} ELSE {"ret_max"})
          ELSE IF e.act = "summarize" THEN (IF o.ret = (IF rt THEN "true" ELSE "false") THEN {} ELSE {"ret_done"})
          ELSE {})
    \cup (IF e.act = "setp" /\ ~(\A a \in 1..n : o.data_ok[a]) THEN {"data"} ELSE {})

Report(e, v) == IF v = {} THEN TRUE ELSE PrintT("REJ " \o ToJson([tid |-> e.tid, clauses |-> v]))

TraceInit == i = 1 /\ conf = <<>> /\ p = <<>> /\ hlen = <<>> /\ proved = <<>> /\ maxp = <<>> /\ ret = "none" /\ last = "init"

EvInit(e) ==
    /\ e.act = "init"
    /\ conf' = ConfOf(e)
    /\ p' = [a \in 1..Len(e.conf) |-> One] /\ hlen' = [a \in 1..Len(e.conf) |-> 0]
    /\ proved' = [a \in 1..Len(e.conf) |-> FALSE]
    /\ maxp' = [c \in ConsOf(ConfOf(e)) |-> "unset"] /\ ret' = "none" /\ last' = "init"
EvExc(e) ==       \* the call raised: report, leave the specification state alone
    /\ "exc" \in DOMAIN e
    /\ Report(e, {"exc:" \o e.act \o ":" \o e.exc.type \o "@" \o e.exc.site})
    /\ UNCHANGED vars
EvSetP(e) ==
    /\ e.act = "setp" /\ "exc" \notin DOMAIN e
    /\ SetP(PsOf(e))
    /\ Report(e, Mismatch(e, conf, p', hlen', proved', maxp', ret'))
EvSummarize(e) ==
    /\ e.act = "summarize" /\ "exc" \notin DOMAIN e
    /\ Summarize
    /\ Report(e, Mismatch(e, conf, p, hlen, proved, maxp, ret'))
EvReset(e) ==
    /\ e.act = "reset" /\ "exc" \notin DOMAIN e
    /\ Reset
    /\ Report(e, Mismatch(e, conf, p', hlen', proved', maxp', ret'))

TraceNext ==
    \/ /\ i <= NRec
       /\ LET e == TraceRecs[i] IN EvInit(e) \/ EvExc(e) \/ EvSetP(e) \/ EvSummarize(e) \/ EvReset(e)
       /\ i' = i + 1
    \/ /\ i = NRec + 1 /\ PrintT("ACC " \o ToString(NRec)) /\ i' = i + 1 /\ UNCHANGED vars
TraceSpec == TraceInit /\ [][TraceNext]_tvars
TraceAccepted == TLCGet("stats").diameter = NRec + 2
=============================================================================
