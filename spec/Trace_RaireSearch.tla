-------------------------- MODULE Trace_RaireSearch --------------------------
(***************************************************************************)
(* Trace validation of the RAIRE search, step by step.  One record per     *)
(* call of compute_raire_assertions: its arguments and the events the      *)
(* harness logged around find_best_audit, manage_node,                     *)
(* RaireFrontier.insert_node / replace_descendents (wrapped at run time;   *)
(* the repository carries no hook).  The search of RaireSearch.tla is      *)
(* started on the same arguments and stepped; every observable action must *)
(* be the next logged event: same kind, same node (tail, estimate, best    *)
(* assertion, best ancestor, expandable), same frontier afterwards (tails, *)
(* estimates, flags, in order), same lower bound.  Silent actions          *)
(* (BeginDive, BeginExpand) consume no event.  A record is rejected with   *)
(* the first clause that fails:  step:<action>:<field>.                    *)
(***************************************************************************)
EXTENDS RaireSearch, Json, IOUtils, TLCExt

TraceRecs == ndJsonDeserialize(IOEnv.TRACE_FILE)
NRec == Len(TraceRecs)
VARIABLES i, k, bad
tvars == <<svars, i, k, bad>>

Tol == RParse("1/1000000000")
EClose(s, x) == IF x = Inf THEN s = "inf" ELSE s \notin {"inf", "nan", "-inf"} /\ RClose(RParse(s), x, Tol, Tol)
AsnOfE(x) == IF x.kind = "none" THEN NoAsn ELSE [kind |-> x.kind, w |-> x.w, l |-> x.l, elim |-> ToSet(x.elim)]
Args(r) == [cs |-> r.cands, prof |-> r.profile, winner |-> r.winner, fn |-> r.fn, total |-> r.total, hint |-> r.hint,
            agap |-> RParse(r.agap)]
Idle == [cs |-> <<>>, prof |-> <<>>, winner |-> "", fn |-> "cp", total |-> 0, hint |-> <<>>, agap |-> Zero]
HasEvents(j) == j >= 1 /\ j <= NRec /\ "events" \in DOMAIN TraceRecs[j]
Events == TraceRecs[i].events

\* the frontier after the action against the logged one
FrMatch(ef) == /\ Len(ef) = Len(fr')
               /\ \A j \in 1..Len(ef) : /\ ef[j].tail = fr'[j]
                                        /\ ef[j].exp = store'[fr'[j]].exp
                                        /\ EClose(ef[j].est, store'[fr'[j]].est)
\* first failing field of event e against the action just taken ("" = all agree)
Mismatch(e) ==
    IF e.act # last'.act THEN "order"
    ELSE IF e.act = "done" THEN
        (IF e.out # out' THEN "verdict"
         ELSE IF out' = "ok" /\ ~FrMatch(e.fr) THEN "frontier"
         ELSE IF out' = "ok" /\ ~({AsnOfE(e.result[j]) : j \in 1..Len(e.result)} \subseteq {store'[fr'[j]].asn : j \in 1..Len(fr')}) THEN "result"
         ELSE IF out' = "notposs" /\ e.result # <<>> THEN "result"
         ELSE "")
    ELSE IF e.tail # last'.tail THEN "order"
    ELSE IF e.act = "node" THEN
        (LET nd == store'[e.tail] IN
         IF ~EClose(e.est, nd.est) THEN "estimate"
         ELSE IF AsnOfE(e.asn) # nd.asn THEN "assertion"
         ELSE IF e.exp # nd.exp \/ e.anc # nd.anc THEN "node"
         ELSE IF out' # "notposs" /\ ~FrMatch(e.fr) THEN "frontier"
         ELSE IF e.lb # "" /\ ~EClose(e.lb, lb') THEN "bound"
         ELSE "")
    ELSE IF ~FrMatch(e.fr) THEN "frontier" ELSE ""

Step ==
    /\ HasEvents(i) /\ bad = "" /\ mode # "done" /\ mode # "idle"
    /\ SearchNext
    /\ i' = i
    /\ IF last'.act = "silent" THEN k' = k /\ bad' = ""
       ELSE IF k > Len(Events) THEN k' = k /\ bad' = "step:" \o last'.act \o ":extra"
       ELSE LET m == Mismatch(Events[k]) IN
            /\ k' = k + 1
            /\ bad' = IF m = "" THEN "" ELSE "step:" \o last'.act \o ":" \o m

Verdict ==
    IF i < 1 \/ i > NRec THEN {}
    ELSE IF ~HasEvents(i) THEN {"exc:" \o TraceRecs[i].exc.type \o "@" \o TraceRecs[i].exc.site}
    ELSE IF bad # "" THEN {bad}
    \* a dive or an expansion that finds the audit impossible ends the search there: only the verdict is left to compare
    ELSE IF out = "notposs" /\ last.act # "done" /\ k = Len(Events) /\ Events[k].act = "done" /\ Events[k].out = "notposs"
         /\ Events[k].result = <<>> THEN {}
    ELSE IF k # Len(Events) + 1 THEN {"step:short"} ELSE {}

Advance ==
    /\ i <= NRec
    /\ (~HasEvents(i) \/ bad # "" \/ mode = "done")
    /\ IF Verdict = {} THEN TRUE ELSE PrintT("REJ " \o ToJson([tid |-> TraceRecs[i].tid, clauses |-> Verdict]))
    /\ i' = i + 1 /\ k' = 1 /\ bad' = ""
    /\ IF HasEvents(i + 1) THEN SearchReset(Args(TraceRecs[i + 1]))
       ELSE /\ inp' = Idle /\ store' = <<>> /\ fr' = <<>> /\ lb' = Zero /\ mode' = "idle" /\ cur' = NoTail /\ dv' = NoTail
            /\ todo' = <<>> /\ out' = "run" /\ nini' = 0 /\ last' = Silent
    /\ IF i = NRec THEN PrintT("ACC " \o ToString(NRec)) /\ TLCSet(1, NRec) ELSE TRUE

TraceInit == /\ i = 0 /\ k = 1 /\ bad = "" /\ TLCSet(1, -1)
             /\ inp = Idle /\ store = <<>> /\ fr = <<>> /\ lb = Zero /\ mode = "idle" /\ cur = NoTail /\ dv = NoTail
             /\ todo = <<>> /\ out = "run" /\ nini = 0 /\ last = Silent
TraceNext == Step \/ Advance
TraceSpec == TraceInit /\ [][TraceNext]_tvars
TraceAccepted == TLCGet(1) = NRec
=============================================================================
