---------------------------- MODULE Trace_Ballots ----------------------------
(***************************************************************************)
(* Trace validation for C02: each record is one TLC-generated ballot       *)
(* profile run through the real make_plurality_assertions /               *)
(* make_supermajority_assertion / Assorter.assort / Assorter.mean /        *)
(* Assertion.margin / Contest.tally / find_margin_from_tally               *)
(* (harness/ballots.py).  Every logged value is recomputed from Ballots'   *)
(* definitions; the property itself (iff, range, margin identity) is       *)
(* evaluated on the code's own outputs.                                    *)
(***************************************************************************)
EXTENDS Ballots, Json, IOUtils, TLCExt, SequencesExt

TraceRecs == ndJsonDeserialize(IOEnv.TRACE_FILE)
NRec == Len(TraceRecs)
VARIABLE i

Tol == RParse("1/1000000000")
NonNum == {"nan", "inf", "-inf", "exc"}
IsNum(s) == s \notin NonNum
Close(s, v) == IsNum(s) /\ RClose(RParse(s), v, Tol, Tol)

BSeq(r) == [k \in 1..Len(r.ballots) |-> [has |-> r.ballots[k].has, m |-> ToSet(r.ballots[k].m)]]
CandSet(r) == ToSet(r.cands)

PlurClauses(r, bs, a) ==
    LET w == a.w  l == a.l
        nS == NCards(bs, TRUE)
        F(b) == PlurAssort(b, w, l)
    IN  (IF Len(a.assort) = Len(bs) /\ \A k \in 1..Len(bs) : Close(a.assort[k], F(bs[k])) THEN {} ELSE {"plur:assort"})
        \cup (IF Len(a.assort) = Len(bs) /\ \A k \in 1..Len(bs) :
                    IsNum(a.assort[k]) => (RLe(Zero, RParse(a.assort[k])) /\ RLe(RParse(a.assort[k]), One))
              THEN {} ELSE {"plur:range"})
        \cup (IF nS > 0 /\ ~Close(a.mean_style, MeanOf(bs, TRUE, F)) THEN {"plur:mean"} ELSE {})
        \cup (IF ~Close(a.mean_all, MeanOf(bs, FALSE, F)) THEN {"plur:mean"} ELSE {})
        \cup (IF nS > 0 /\ ~Close(a.margin_style, RSub(RMul(RNat(2), MeanOf(bs, TRUE, F)), One)) THEN {"plur:margin"} ELSE {})
        \* margin from the (raw) tally = 2 mean - 1 over the same cards
        \cup (IF nS > 0 /\ ~Close(a.tmargin_style, RSub(RMul(RNat(2), MeanOf(bs, TRUE, F)), One)) THEN {"plur:tally_margin"} ELSE {})
        \cup (IF ~Close(a.tmargin_all, RSub(RMul(RNat(2), MeanOf(bs, FALSE, F)), One)) THEN {"plur:tally_margin"} ELSE {})

SuperClauses(r, bs, a) ==
    LET w == a.w  f == RParse(a.f)  cs == CandSet(r)
        nS == NCards(bs, TRUE)
        ub == RDiv(One, RMul(RNat(2), f))
        F(b) == SuperAssort(b, w, cs, f)
        hasAll == \A k \in 1..Len(bs) : Has(bs[k])
    IN  (IF Len(a.assort) = Len(bs) /\ \A k \in 1..Len(bs) : Close(a.assort[k], F(bs[k])) THEN {} ELSE {"super:assort"})
        \cup (IF Len(a.assort) = Len(bs) /\ \A k \in 1..Len(bs) :
                    IsNum(a.assort[k]) => (RLe(Zero, RParse(a.assort[k])) /\ RLe(RParse(a.assort[k]), RAdd(ub, Tol)))
              THEN {} ELSE {"super:range"})
        \cup (IF ~Close(a.upper_bound, ub) THEN {"super:bound"} ELSE {})
        \cup (IF nS > 0 /\ ~Close(a.mean_style, MeanOf(bs, TRUE, F)) THEN {"super:mean"} ELSE {})
        \cup (IF ~Close(a.mean_all, MeanOf(bs, FALSE, F)) THEN {"super:mean"} ELSE {})
        \* the statement itself on the code's mean: > 1/2 iff the winner's valid votes exceed f * valid votes
        \cup (IF nS > 0 /\ IsNum(a.mean_style) /\
                 (RLt(Half, RParse(a.mean_style)) # RLt(RMul(f, RNat(Valid(bs, cs))), RNat(ValidFor(bs, w, cs))))
                 /\ ~REq(RMul(f, RNat(Valid(bs, cs))), RNat(ValidFor(bs, w, cs)))     \* (exact ties: float equality not judged)
              THEN {"super:iff"} ELSE {})
        \* margin from the tally (one-vote rule enforced) = q(p/f - 1) = 2 mean - 1 over the same cards
        \cup (IF nS > 0 /\ ~Close(a.tmargin_style, RSub(RMul(RNat(2), MeanOf(bs, TRUE, F)), One)) THEN {"super:tally_margin"} ELSE {})

TallyClauses(r, bs) ==
    LET cs == CandSet(r) IN
    (IF \A c \in cs : r.tally_raw[c] = Marks(bs, c) THEN {} ELSE {"tally:raw"})
    \cup (IF \A c \in cs : r.tally_k1[c] = RuleMarks(bs, c, cs, 1) THEN {} ELSE {"tally:rules"})
    \cup (IF \A c \in cs : r.tally_k2[c] = RuleMarks(bs, c, cs, 2) THEN {} ELSE {"tally:rules"})

IffClauses(r, bs) ==
    LET cs == CandSet(r)
        nS == NCards(bs, TRUE)
        mean(w, l) == LET a == CHOOSE a \in ToSet(r.plur) : a.w = w /\ a.l = l IN a.mean_style
        Ws == {W \in SUBSET cs : Cardinality(W) \in 1..(Cardinality(cs) - 1)}
    IN  IF nS = 0 \/ \E a \in ToSet(r.plur) : ~IsNum(a.mean_style) THEN {}
        ELSE IF \A W \in Ws :
                  (\A w \in W : \A l \in cs \ W : RLt(Half, RParse(mean(w, l))))
                  <=> (\A w \in W : \A l \in cs \ W : Marks(bs, w) > Marks(bs, l))
             THEN {} ELSE {"plur:iff"}

Verdict(r) ==
    LET bs == BSeq(r) IN
    {"exc:" \o e.field \o ":" \o e.type \o "@" \o e.site : e \in ToSet(r.excs)}
    \cup UNION {PlurClauses(r, bs, r.plur[k]) : k \in 1..Len(r.plur)}
    \cup UNION {SuperClauses(r, bs, r.super[k]) : k \in 1..Len(r.super)}
    \cup TallyClauses(r, bs) \cup IffClauses(r, bs)

TraceInit == i = 1
TraceNext ==
    \/ /\ i <= NRec
       /\ LET r == TraceRecs[i]  v == Verdict(r)
          IN  IF v = {} THEN TRUE ELSE PrintT("REJ " \o ToJson([tid |-> r.tid, clauses |-> v]))
       /\ i' = i + 1
    \/ /\ i = NRec + 1 /\ PrintT("ACC " \o ToString(NRec)) /\ i' = i + 1
TraceSpec == TraceInit /\ [][TraceNext]_i
TraceAccepted == TLCGet("stats").diameter = NRec + 2
=============================================================================
