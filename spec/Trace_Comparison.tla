--------------------------- MODULE Trace_Comparison ---------------------------
(***************************************************************************)
(* Trace validation for C03, C06 and the scoring half of C08: each record  *)
(* is one TLC-generated card list run through the real                     *)
(* set_margin_from_cvrs / set_tally_pool_means / overstatement_assorter /  *)
(* mvrs_to_data / set_p_values (with a recording stub test).               *)
(* Clauses:                                                                *)
(*   margin, pool_mean         inputs of the reduction (C03)               *)
(*   B                         each overstatement assorter value (C03 C08) *)
(*   reduction                 the identity of C03 on the code's own values*)
(*   worst                     phantom MVR never scores higher (C08)       *)
(*   data, bound, installed, range   what the test is handed (C06)         *)
(*   exc:*                     an exception inside the domain              *)
(***************************************************************************)
EXTENDS Comparison, Json, IOUtils, TLCExt, SequencesExt

TraceRecs == ndJsonDeserialize(IOEnv.TRACE_FILE)
NRec == Len(TraceRecs)
VARIABLE i

Tol == RParse("1/1000000000")
NonNum == {"nan", "inf", "-inf", "exc", "na"}
IsNum(s) == s \notin NonNum
Close(s, v) == IF v = "nan" THEN s = "nan" ELSE IsNum(s) /\ RClose(RParse(s), v, Tol, Tol)

RawCards(r) == [k \in 1..Len(r.cards) |-> [cs |-> r.cards[k].cs, ph |-> r.cards[k].ph, pool |-> r.cards[k].pool,
                                            ms |-> r.cards[k].ms]]
\* when the driver ran the ONEAudit padding first, the specification applies it too
CardsOf(r) == IF "padded" \in DOMAIN r /\ r.padded THEN Padded(RawCards(r)) ELSE RawCards(r)
SeqOfSet(S) == SetToSortSeq(S, <)      \* positions in increasing order

CompClauses(r) ==
    LET cards == CardsOf(r)
        u == RParse(r.u)
        st == r.style
        S == Idx(cards, st)
        v == Margin(cards, st, u)
        o == r.out
        pools == {cards[k].pool : k \in 1..Len(cards)} \ {"none"}
        contrib == SeqOfSet(Contributors(cards, st, r.thr))
        bvals == [k \in 1..Len(cards) |-> IF k \in S THEN B(cards, k, st, u, v) ELSE "na"]
        want == [j \in 1..Len(contrib) |-> bvals[contrib[j]]]
        numB == \A k \in S : IsNum(o.B[k])
    IN  (IF Close(o.margin, v) THEN {} ELSE {"margin"})
        \cup (IF \A p \in pools : Close(o.pool_means[p], PoolMean(cards, st, u, p)) THEN {} ELSE {"pool_mean"})
        \cup (IF Len(o.B) = Len(cards) /\ \A k \in S : Close(o.B[k], bvals[k]) THEN {} ELSE {"B"})
        \* the statement of C03 evaluated on the code's own numbers
        \cup (IF Len(o.B) = Len(cards) /\ numB /\ IsNum(o.margin) THEN
                 LET mB == MeanOver([k \in 1..Len(cards) |-> IF k \in S THEN RParse(o.B[k]) ELSE Zero], S)
                     mA == MeanOver([k \in 1..Len(cards) |-> MvrScore(cards[k], st, u)], S)
                     vv == RParse(o.margin)
                 IN  IF RClose(RSub(mB, Half),
                               RDiv(RSub(RMul(RNat(2), mA), One), RMul(RNat(2), RSub(RMul(RNat(2), u), vv))), Tol, Tol)
                     THEN {} ELSE {"reduction"}
              ELSE {})
        \cup (IF Len(o.Bunf) = Len(cards) /\ \A k \in S :
                    IsNum(o.Bunf[k]) /\ IsNum(o.B[k]) /\ RLe(RParse(o.Bunf[k]), RAdd(RParse(o.B[k]), Tol))
                    /\ Close(o.Bunf[k], B([cards EXCEPT ![k].ms = "u"], k, st, u, v))
              THEN {} ELSE {"worst"})
        \cup (IF Len(o.data) = Len(want) /\ \A j \in 1..Len(want) : Close(o.data[j], want[j]) THEN {} ELSE {"data"})
        \cup (IF Close(o.u_ret, TestBound(u, v)) THEN {} ELSE {"bound"})
        \cup (IF o.u_installed = o.u_ret /\ o.seen = o.data THEN {} ELSE {"installed"})
        \* setting the margins also installs each assertion's own bound in its test
        \cup (IF Close(o.u_after_margins, TestBound(u, v)) THEN {} ELSE {"installed:margins"})
        \cup (IF IsNum(o.u_ret) /\ \A j \in 1..Len(o.data) :
                    \* exactly: the tests refuse (or mis-handle) a value above the bound they are told, however slightly, and
                    \* (1 - o/u)/(2 - v/u) <= 2/(2 - v/u) holds in floating point because division is monotone
                    IsNum(o.data[j]) /\ RLe(Zero, RParse(o.data[j])) /\ RLe(RParse(o.data[j]), RParse(o.u_ret))
              THEN {} ELSE {"range"})

PollClauses(r) ==
    LET cards == CardsOf(r)
        u == RParse(r.u)
        o == r.out
    IN  (IF Len(o.data) = Len(cards) /\ \A k \in 1..Len(cards) : Close(o.data[k], PollScore(cards[k], u)) THEN {} ELSE {"data"})
        \cup (IF Close(o.u_ret, u) THEN {} ELSE {"bound"})
        \cup (IF o.u_installed = o.u_ret /\ o.seen = o.data THEN {} ELSE {"installed"})
        \cup (IF IsNum(o.u_ret) /\ \A j \in 1..Len(o.data) :
                    IsNum(o.data[j]) /\ RLe(Zero, RParse(o.data[j])) /\ RLe(RParse(o.data[j]), RParse(o.u_ret))
              THEN {} ELSE {"range"})

Verdict(r) ==
    {"exc:" \o e.field \o ":" \o e.type \o "@" \o e.site : e \in ToSet(r.excs)}
    \cup (IF "out" \notin DOMAIN r THEN {} ELSE IF r.audit = "POLLING" THEN PollClauses(r) ELSE CompClauses(r))

TraceInit == i = 1
TraceNext ==
    \/ /\ i <= NRec
       /\ LET r == TraceRecs[i]  v == Verdict(r)
          IN  IF v = {} THEN TRUE ELSE PrintT("REJ " \o ToJson([tid |-> r.tid, clauses |-> v]))
       /\ i' = i + 1
    \/ /\ i = NRec + 1 /\ PrintT("ACC " \o ToString(NRec)) /\ i' = i + 1
TraceSpec == TraceInit /\ [][TraceNext]_i
TraceAccepted == TLCGet("stats").diameter = NRec + 2
=============================================================================
