---------------------------- MODULE RaireSearchMC ----------------------------
(***************************************************************************)
(* The search of RaireSearch.tla started on every multiset of at most      *)
(* MaxBallots ranked ballots over Cands, every reported winner, every      *)
(* difficulty function in Fns, with and without a dive hint, and run to    *)
(* its end.  Checked in every state: NodeSound, Covers, ClosedBelowBound,  *)
(* BoundIsLower, DoneRight (the search refines Raire.tla) and StepsBounded *)
(* (termination: the step counter of a search that loops would grow).      *)
(***************************************************************************)
EXTENDS RaireSearch, FiniteSetsExt, Json, IOUtils

CONSTANTS Cands, MaxBallots, Fns, Gaps, MaxSteps, HintKinds, Extras

CandSeq == SetToSeq(Cands)
Rankings == UNION {{s \in [1..k -> Cands] : \A i, j \in 1..k : i # j => s[i] # s[j]} : k \in 0..Cardinality(Cands)}
Types == SetToSeq(Rankings)
NT == Len(Types)
Sorted(n) == {s \in [1..n -> 1..NT] : \A i \in 1..(n - 1) : s[i] <= s[i + 1]}
Profiles == UNION {{[k \in 1..n |-> Types[s[k]]] : s \in Sorted(n)} : n \in 1..MaxBallots}
Hints == IF HintKinds = 1 THEN {<<>>} ELSE {<<>>, CandSeq, Reverse(CandSeq)}

VARIABLE steps
vars == <<svars, steps>>
Init == /\ \E p \in Profiles, w \in Cands, fn \in Fns, h \in Hints, g \in Gaps, extra \in Extras :
              SearchInit([cs |-> CandSeq, prof |-> p, winner |-> w, fn |-> fn, total |-> Len(p) + extra, hint |-> h,
                          agap |-> R(g, 1)])
        /\ steps = 0
Tick == steps' = steps + 1
A_InitNode == InitNode /\ Tick
A_StopGap == StopGap /\ Tick
A_StopLeaves == StopLeaves /\ Tick
A_LoopReplace == LoopReplace /\ Tick
A_LoopFreeze == LoopFreeze /\ Tick
A_BeginDive == BeginDive /\ Tick
A_BeginExpand == BeginExpand /\ Tick
A_DiveStep == DiveStep /\ Tick
A_PostReplace == PostReplace /\ Tick
A_PostFreeze == PostFreeze /\ Tick
A_ExpandChild == ExpandChild /\ Tick
Next == A_InitNode \/ A_StopGap \/ A_StopLeaves \/ A_LoopReplace \/ A_LoopFreeze \/ A_BeginDive \/ A_BeginExpand \/ A_DiveStep \/ A_PostReplace \/ A_PostFreeze \/ A_ExpandChild
\* the same invariants on the searches a file lists (the harness writes the cases whose real runs it also validates:
\* larger profiles, 4-5 candidates - where ancestors replace their descendants and nodes are frozen)
Cases == ndJsonDeserialize(IOEnv.RS_CASES)
InitFile == /\ \E j \in 1..Len(Cases) :
                  SearchInit([cs |-> Cases[j].cands, prof |-> Cases[j].profile, winner |-> Cases[j].winner, fn |-> Cases[j].fn,
                              total |-> Cases[j].total, hint |-> Cases[j].hint, agap |-> RParse(Cases[j].agap)])
            /\ steps = 0
StepsBounded == steps <= MaxSteps
Finishes == <>(mode = "done")
Spec == Init /\ [][Next]_vars /\ WF_vars(Next)
=============================================================================
