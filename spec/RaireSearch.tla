----------------------------- MODULE RaireSearch -----------------------------
(***************************************************************************)
(* The RAIRE branch-and-bound itself (shangrla/raire/raire.py              *)
(* compute_raire_assertions with raire_utils.find_best_audit, manage_node, *)
(* perform_dive, RaireFrontier), one action per step the code takes on its *)
(* frontier.  Raire.tla says WHAT the search must return; this module says *)
(* HOW the code gets there, and RaireSearchMC.tla checks that the how      *)
(* refines the what (terminates; the final frontier is a sufficient set of *)
(* true assertions whose largest difficulty is the optimum; the running    *)
(* lower bound never exceeds the optimum).                                 *)
(*                                                                         *)
(* A node is the tail of an imagined elimination order (last = imagined    *)
(* winner); nodes live in `store`, keyed by tail (the code creates at most *)
(* one node object per tail); the frontier is a sequence of tails, which   *)
(* may repeat (replace_descendents re-inserts an ancestor that is already  *)
(* there).  Estimates are exact rationals or Inf.                          *)
(*                                                                         *)
(* Actions (obs = the event the harness logs for it):                      *)
(*   InitNode        node     one tail <<d, c>> of the initial frontier    *)
(*   StopGap, StopLeaves  done                                             *)
(*   LoopReplace     replace  popped node's best ancestor is cheap enough  *)
(*   LoopFreeze      freeze   popped node itself is cheap enough           *)
(*   BeginDive, BeginExpand   (silent)                                     *)
(*   DiveStep        node     one node of the dive (manage_node included)  *)
(*   PostReplace, PostFreeze  replace / freeze after the dive              *)
(*   ExpandChild     node     one child of the expansion loop              *)
(***************************************************************************)
EXTENDS Raire, SequencesExt

Inf == "inf"
ELe(a, b) == IF b = Inf THEN TRUE ELSE IF a = Inf THEN FALSE ELSE RLe(a, b)
EMax(a, b) == IF ELe(a, b) THEN b ELSE a
NoAsn == [kind |-> "none", w |-> "", l |-> "", elim |-> {}]
NoTail == <<>>

\* ------------------------------------------------------------------ find_best_audit
\* the assertions the code considers for a tail, in the order it considers them
AsnSeq(cs, tail) ==
    LET first == tail[1]
        later == SubSeq(tail, 2, Len(tail))
        elimSeq == SelectSeq(cs, LAMBDA c : c \notin ToSet(tail))
        nt == Len(tail)
        s1 == [k \in 1..Len(later) |-> [kind |-> "NEB", w |-> first, l |-> later[k], elim |-> {}]]
        s2 == [k \in 1..(Len(elimSeq) * nt) |->
                 [kind |-> "NEB", w |-> elimSeq[((k - 1) \div nt) + 1], l |-> tail[((k - 1) % nt) + 1], elim |-> {}]]
        s3 == [k \in 1..Len(later) |-> [kind |-> "NEN", w |-> first, l |-> later[k], elim |-> ToSet(elimSeq)]]
    IN  s1 \o s2 \o s3
\* the first of the least difficult true ones (strict < keeps the earlier candidate)
Best(cs, prof, total, fn, tail) ==
    LET ok == SelectSeq(AsnSeq(cs, tail), LAMBDA a : Holds(prof, a))
        d(k) == Diff(fn, prof, total, ok[k])
    IN  IF ok = <<>> THEN [asn |-> NoAsn, est |-> Inf]
        ELSE LET km == CHOOSE k \in 1..Len(ok) : (\A j \in 1..Len(ok) : RLe(d(k), d(j))) /\ (\A j \in 1..(k - 1) : ~RLe(d(j), d(k)))
             IN  [asn |-> ok[km], est |-> d(km)]

\* ------------------------------------------------------------------ RaireFrontier
IsDesc(x, t) == Len(x) > Len(t) /\ SubSeq(x, Len(x) - Len(t) + 1, Len(x)) = t
InsertPos(f, st, e) ==
    IF \E i \in 1..Len(f) : ELe(st[f[i]].est, e) THEN CHOOSE i \in 1..Len(f) : ELe(st[f[i]].est, e) /\ \A j \in 1..(i - 1) : ~ELe(st[f[j]].est, e)
    ELSE Len(f) + 1
Insert(f, st, t) ==
    IF ~st[t].exp THEN Append(f, t)
    ELSE IF st[t].est = Inf THEN <<t>> \o f
    ELSE LET p == InsertPos(f, st, st[t].est) IN SubSeq(f, 1, p - 1) \o <<t>> \o SubSeq(f, p, Len(f))
ReplaceDesc(f, st, t) == Insert(SelectSeq(f, LAMBDA x : ~IsDesc(x, t)), st, t)

\* ------------------------------------------------------------------ state
VARIABLES inp,      \* [cs, prof, winner, fn, total, hint, agap]: the call's arguments
          store, fr, lb, mode, cur, dv, todo, out, nini, last
svars == <<inp, store, fr, lb, mode, cur, dv, todo, out, nini, last>>

NC == Len(inp.cs)
InitPairs == LET others == SelectSeq(inp.cs, LAMBDA c : c # inp.winner)
                 inner(c) == SelectSeq(inp.cs, LAMBDA d : d # c)
             IN  FlattenSeq([k \in 1..Len(others) |-> [j \in 1..Len(inner(others[k])) |-> <<inner(others[k])[j], others[k]>>]])
Silent == [act |-> "silent", tail |-> NoTail]

SearchInit(a) ==
    /\ inp = a /\ store = <<>> /\ fr = <<>> /\ lb = R(-10, 1) /\ mode = "init" /\ cur = NoTail /\ dv = NoTail
    /\ todo = <<>> /\ out = "run" /\ nini = 0 /\ last = Silent

\* the same as an action (the trace specification starts one search after another)
SearchReset(a) ==
    /\ inp' = a /\ store' = <<>> /\ fr' = <<>> /\ lb' = R(-10, 1) /\ mode' = "init" /\ cur' = NoTail /\ dv' = NoTail
    /\ todo' = <<>> /\ out' = "run" /\ nini' = 0 /\ last' = Silent

MkNode(tail, b, exp, dive, anc) == [tail |-> tail, est |-> b.est, asn |-> b.asn, exp |-> exp, dive |-> dive, explored |-> {}, anc |-> anc]
Put(st, nd) == (nd.tail :> nd) @@ st
BestOf(tail) == Best(inp.cs, inp.prof, inp.total, inp.fn, tail)
AncOf(parent) == IF parent.anc # NoTail /\ ELe(store[parent.anc].est, parent.est) THEN parent.anc ELSE parent.tail

InitNode ==
    /\ mode = "init" /\ nini < Len(InitPairs)
    /\ LET t == InitPairs[nini + 1]
           nd == MkNode(t, BestOf(t), NC > 2, FALSE, NoTail)
           st2 == Put(store, nd)
       IN  /\ store' = st2 /\ fr' = Insert(fr, st2, t) /\ last' = [act |-> "node", tail |-> t]
    /\ nini' = nini + 1
    /\ mode' = IF nini + 1 = Len(InitPairs) THEN "loop" ELSE "init"
    /\ UNCHANGED <<inp, lb, cur, dv, todo, out>>

MaxEst == LET es == {store[fr[i]].est : i \in 1..Len(fr)} IN CHOOSE e \in es : \A x \in es : ELe(x, e)
GapReached == /\ RLt(Zero, inp.agap) /\ RLt(Zero, lb) /\ MaxEst # Inf /\ RLe(RSub(MaxEst, lb), inp.agap)

StopGap ==
    /\ mode = "loop" /\ GapReached
    /\ mode' = "done" /\ out' = "ok" /\ last' = [act |-> "done", tail |-> NoTail]
    /\ UNCHANGED <<inp, store, fr, lb, cur, dv, todo, nini>>
StopLeaves ==
    /\ mode = "loop" /\ ~GapReached /\ ~store[fr[1]].exp
    /\ mode' = "done"
    /\ out' = IF \E i \in 1..Len(fr) : store[fr[i]].asn = NoAsn THEN "notposs" ELSE "ok"
    /\ last' = [act |-> "done", tail |-> NoTail]
    /\ UNCHANGED <<inp, store, fr, lb, cur, dv, todo, nini>>

Popped == mode = "loop" /\ ~GapReached /\ store[fr[1]].exp
AncCheap(t) == store[t].anc # NoTail /\ ELe(store[store[t].anc].est, lb)
LoopReplace ==
    /\ Popped /\ AncCheap(fr[1])
    /\ fr' = ReplaceDesc(Tail(fr), store, store[fr[1]].anc)
    /\ last' = [act |-> "replace", tail |-> store[fr[1]].anc]
    /\ UNCHANGED <<inp, store, lb, mode, cur, dv, todo, out, nini>>
Freeze(t, f) ==
    LET st2 == Put(store, [store[t] EXCEPT !.exp = FALSE])
    IN  store' = st2 /\ fr' = Insert(f, st2, t) /\ last' = [act |-> "freeze", tail |-> t]
LoopFreeze ==
    /\ Popped /\ ~AncCheap(fr[1]) /\ ELe(store[fr[1]].est, lb)
    /\ Freeze(fr[1], Tail(fr))
    /\ UNCHANGED <<inp, lb, mode, cur, dv, todo, out, nini>>
Children(t) == SelectSeq(inp.cs, LAMBDA c : c \notin ToSet(t) /\ c \notin store[t].explored)
BeginDive ==
    /\ Popped /\ ~AncCheap(fr[1]) /\ ~ELe(store[fr[1]].est, lb) /\ ~store[fr[1]].dive
    /\ mode' = "dive" /\ cur' = fr[1] /\ dv' = fr[1] /\ fr' = Tail(fr) /\ last' = Silent
    /\ UNCHANGED <<inp, store, lb, todo, out, nini>>
BeginExpand ==
    /\ \/ Popped /\ ~AncCheap(fr[1]) /\ ~ELe(store[fr[1]].est, lb) /\ store[fr[1]].dive
          /\ cur' = fr[1] /\ fr' = Tail(fr) /\ todo' = Children(fr[1])
          /\ mode' = IF Children(fr[1]) = <<>> THEN "loop" ELSE "expand"
       \/ mode = "post" /\ ~AncCheap(cur) /\ ~ELe(store[cur].est, lb)
          /\ cur' = cur /\ fr' = fr /\ todo' = Children(cur)
          /\ mode' = IF Children(cur) = <<>> THEN "loop" ELSE "expand"
    /\ last' = Silent
    /\ UNCHANGED <<inp, store, lb, dv, out, nini>>

\* manage_node for a node just evaluated (nd already in st2); gives the next frontier, bound and verdict
Managed(nd, st2, f) ==
    IF ~nd.exp THEN
        IF nd.est = Inf /\ st2[nd.anc].est = Inf THEN [fr |-> f, lb |-> Inf, v |-> "notposs"]
        ELSE IF ELe(st2[nd.anc].est, nd.est) THEN [fr |-> ReplaceDesc(f, st2, nd.anc), lb |-> EMax(lb, st2[nd.anc].est), v |-> "terminus"]
        ELSE [fr |-> Insert(f, st2, nd.tail), lb |-> EMax(lb, nd.est), v |-> "terminus"]
    ELSE [fr |-> Insert(f, st2, nd.tail), lb |-> lb, v |-> "go"]

\* the candidate a dive follows: the remaining one latest in the hinted order, else the first remaining
DiveCand(t) ==
    LET rem == SelectSeq(inp.cs, LAMBDA c : c \notin ToSet(t))
    IN  IF inp.hint = <<>> THEN rem[1]
        ELSE CHOOSE c \in ToSet(rem) : \A d \in ToSet(rem) : Pos(inp.hint, d) <= Pos(inp.hint, c)
DiveStep ==
    /\ mode = "dive"
    /\ LET c == DiveCand(dv)
           t == <<c>> \o dv
           par == store[dv]
           nd == MkNode(t, BestOf(t), Len(t) < NC, TRUE, AncOf(par))
           st2 == Put(Put(store, [par EXCEPT !.explored = @ \cup {c}]), nd)
           m == Managed(nd, st2, fr)
       IN  /\ store' = st2 /\ fr' = m.fr /\ lb' = m.lb /\ last' = [act |-> "node", tail |-> t]
           /\ IF m.v = "notposs" THEN mode' = "done" /\ out' = "notposs" /\ dv' = dv
              ELSE IF m.v = "terminus" THEN mode' = "post" /\ out' = out /\ dv' = dv
              ELSE mode' = "dive" /\ out' = out /\ dv' = t
    /\ UNCHANGED <<inp, cur, todo, nini>>
PostReplace ==
    /\ mode = "post" /\ AncCheap(cur)
    /\ fr' = ReplaceDesc(fr, store, store[cur].anc) /\ mode' = "loop"
    /\ last' = [act |-> "replace", tail |-> store[cur].anc]
    /\ UNCHANGED <<inp, store, lb, cur, dv, todo, out, nini>>
PostFreeze ==
    /\ mode = "post" /\ ~AncCheap(cur) /\ ELe(store[cur].est, lb)
    /\ Freeze(cur, fr) /\ mode' = "loop"
    /\ UNCHANGED <<inp, lb, cur, dv, todo, out, nini>>
ExpandChild ==
    /\ mode = "expand" /\ todo # <<>>
    /\ LET c == Head(todo)
           t == <<c>> \o cur
           nd == MkNode(t, BestOf(t), Len(t) < NC, FALSE, AncOf(store[cur]))
           st2 == Put(store, nd)
           m == Managed(nd, st2, fr)
       IN  /\ store' = st2 /\ fr' = m.fr /\ lb' = m.lb /\ last' = [act |-> "node", tail |-> t]
           /\ IF m.v = "notposs" THEN mode' = "done" /\ out' = "notposs"
              ELSE out' = out /\ mode' = IF Tail(todo) = <<>> THEN "loop" ELSE "expand"
    /\ todo' = Tail(todo)
    /\ UNCHANGED <<inp, cur, dv, nini>>

SearchNext == InitNode \/ StopGap \/ StopLeaves \/ LoopReplace \/ LoopFreeze \/ BeginDive \/ BeginExpand
              \/ DiveStep \/ PostReplace \/ PostFreeze \/ ExpandChild

\* ------------------------------------------------------------------ what the search maintains
Cs == ToSet(inp.cs)
IsSuffixOf(t, o) == Len(t) <= Len(o) /\ SubSeq(o, Len(o) - Len(t) + 1, Len(o)) = t
FrontAsns == {store[fr[i]].asn : i \in 1..Len(fr)}
\* every evaluated node's assertion is true and contradicts every complete order that ends in its tail
NodeSound == \A t \in DOMAIN store : store[t].asn # NoAsn =>
                 /\ Holds(inp.prof, store[t].asn)
                 /\ REq(store[t].est, Diff(inp.fn, inp.prof, inp.total, store[t].asn))
                 /\ \A o \in Perms(Cs) : IsSuffixOf(t, o) => Contradicts(store[t].asn, o)
\* between iterations the frontier covers every alternative outcome
Covers == (mode = "loop" \/ (mode = "done" /\ out = "ok")) =>
              \A o \in AltOrders(Cs, inp.winner) : \E i \in 1..Len(fr) : IsSuffixOf(fr[i], o)
\* nodes that will not be expanded any more cost no more than the bound (3+ candidates)
ClosedBelowBound == NC > 2 => \A i \in 1..Len(fr) : ~store[fr[i]].exp => ELe(store[fr[i]].est, lb)
Possible == AuditPossible(inp.prof, Cs, inp.winner)
Opt == Optimum(inp.fn, inp.prof, inp.total, Cs, inp.winner)
\* the running bound is a lower bound on what any sufficient set costs
BoundIsLower == (Possible /\ lb # Inf) => RLe(lb, Opt)
\* refinement of Raire.tla: verdict and optimum
DoneRight == mode = "done" =>
    /\ (out = "notposs") = ~Possible
    /\ out = "ok" => /\ NoAsn \notin FrontAsns
                     /\ Sufficient(FrontAsns, Cs, inp.winner)
                     /\ inp.agap = Zero => REq(MaxEst, Opt)
                     /\ RLe(MaxEst, RAdd(Opt, inp.agap))
=============================================================================
