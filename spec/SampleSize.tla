------------------------------ MODULE SampleSize ------------------------------
(***************************************************************************)
(* Sample-size estimation (NonnegMean.sample_size, Assertion /             *)
(* Contest.find_sample_size, Assertion.interleave_values): the             *)
(* hypothetical populations the documentation describes and the first      *)
(* crossing time of a p-value history.  (C16)                              *)
(***************************************************************************)
EXTENDS Rat, Integers, Sequences, FiniteSets, TLC

\* pilot values laid end to end and cut at N
Tiled(x, N) == [k \in 1..N |-> x[((k - 1) % Len(x)) + 1]]
\* first position at which the history is at or below the risk limit; N if none
FirstCrossing(ph, alpha) ==
    IF \E k \in 1..Len(ph) : RLe(ph[k], alpha)
    THEN CHOOSE k \in 1..Len(ph) : RLe(ph[k], alpha) /\ \A j \in 1..(k - 1) : ~RLe(ph[j], alpha)
    ELSE Len(ph)
\* value of an overstatement of `overs` (in units of ballots' assorter range):  (1 - overs/u) / (2 - v/u)
Overstated(overs, u, v) == RDiv(RSub(One, RDiv(overs, u)), RSub(RNat(2), RDiv(v, u)))
\* comparison audits: error-free values, a one-vote overstatement every step1-th position from the first,
\* a two-vote overstatement (0) every step2-th (step = 0: that kind of error is not assumed)
ComparisonPop(N, u, v, step1, step2) ==
    [k \in 1..N |-> IF step2 > 0 /\ (k - 1) % step2 = 0 THEN Zero
                    ELSE IF step1 > 0 /\ (k - 1) % step1 = 0 THEN Overstated(Half, u, v)
                    ELSE Overstated(Zero, u, v)]

\* polling: the interleaving loop of the documentation (start small; then always the kind with the largest remaining fraction,
\* ties: big first, then medium before small)
Rem(n, done) == IF n = 0 THEN Zero ELSE R(n - done, n)         \* fraction of that kind still to be placed
RECURSIVE InterleaveFrom(_, _, _, _, _, _, _)
InterleaveFrom(ns, nm, nb, is, im, ib, acc) ==       \* acc: sequence of "s" / "m" / "b" so far
    IF Len(acc) = ns + nm + nb THEN acc
    ELSE LET rs == Rem(ns, is)  rm == Rem(nm, im)  rb == Rem(nb, ib)
         IN  IF RLt(rb, rs)
             THEN (IF RLt(rs, rm) THEN InterleaveFrom(ns, nm, nb, is, im + 1, ib, Append(acc, "m"))
                   ELSE InterleaveFrom(ns, nm, nb, is + 1, im, ib, Append(acc, "s")))
             ELSE IF RLt(rb, rm) THEN InterleaveFrom(ns, nm, nb, is, im + 1, ib, Append(acc, "m"))
             ELSE InterleaveFrom(ns, nm, nb, is, im, ib + 1, Append(acc, "b"))
\* the population starts with a small value if there is one (else a medium one, else a big one); nb >= 1
Interleave(ns, nm, nb) ==
    IF ns > 0 THEN InterleaveFrom(ns, nm, nb, 1, 0, 0, <<"s">>)
    ELSE IF nm > 0 THEN InterleaveFrom(ns, nm, nb, 0, 1, 0, <<"m">>)
    ELSE InterleaveFrom(ns, nm, nb, 0, 0, 1, <<"b">>)
CountOf(seq, t) == Cardinality({k \in 1..Len(seq) : seq[k] = t})
=============================================================================
