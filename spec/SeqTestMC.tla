----------------------------- MODULE SeqTestMC -----------------------------
(***************************************************************************)
(* The sequential test as a state machine: one Draw per ballot.  TLC       *)
(* explores every ordering of every population in Pops (sampling without   *)
(* replacement; IID draws from a law when C.N = 0), or - AnySample - every  *)
(* sample on the grid whether or not it comes from a null population.      *)
(*                                                                         *)
(* Free = TRUE replaces the shipped estimator by a nondeterministic choice *)
(* from a finite subset of the range [m_j, u] (resp. [0, 1/m_j]): the      *)
(* properties then hold for EVERY predictable rule with values in it, and  *)
(* the binding (Trace_SeqTest, clause "valid") only has to show that the   *)
(* code's logged values lie in that range.                                 *)
(***************************************************************************)
EXTENDS SeqTest, SequencesExt

CONSTANTS C,          \* configuration record (see SeqTest)
          Grid,       \* sequence of observation values in [0, C.u]
          Pops,       \* set of populations: <<count_1, .., count_K>> (finite N) or weights (IID)
          Horizon,    \* number of draws explored
          AnySample,  \* TRUE: every value can always be drawn (all samples, not only null ones)
          Free        \* TRUE: nondeterministic estimator / bet

VARIABLES rem, xs, st, ph, es
vars == <<rem, xs, st, ph, es>>

K == Len(Grid)
RECURSIVE SumTo(_, _)
SumTo(f, k) == IF k = 0 THEN 0 ELSE f[k] + SumTo(f, k - 1)
Tot(r) == SumTo(r, K)
RECURSIVE RSumTo(_, _)
RSumTo(f, k) == IF k = 0 THEN Zero ELSE RAdd(f[k], RSumTo(f, k - 1))

FreeChoices(m) ==
    IF ~UsesEst(C) \/ C.method = "SPRT" THEN {"none"}
    ELSE IF Region(C, m) # "in" THEN {IF IsEtaMethod(C) THEN C.u ELSE Zero}
    ELSE IF IsEtaMethod(C) THEN {m, RDiv(RAdd(m, C.u), RNat(2)), C.u}
    ELSE {Zero, RDiv(Half, m), RDiv(One, m)}
EChoices(xq, m) ==
    IF Free THEN FreeChoices(m)
    ELSE IF ~UsesEst(C) \/ C.method = "SPRT" THEN {"none"}
    ELSE {Est(C, xq, Len(xq) + 1)}

(***************************************************************************)
(* Reported value at draw j for a sample that ends there or goes on.       *)
(*   PGo   : the entry as it stands when more draws follow                 *)
(*   PStop : the entry when the sample ends here (last-entry convention)   *)
(* "undef" where the definition has no value.                              *)
(***************************************************************************)
PGo(m, s2) == IF Demands(C, s2, m) THEN PStep(C, m, s2.T) ELSE "undef"
PStop(n, m, s2) == IF LastOverride(C, n, s2.S) THEN Zero ELSE PGo(m, s2)

Init == /\ rem \in Pops /\ xs = <<>> /\ st = St0 /\ ph = <<>> /\ es = <<>>

Draw(i, e) ==
    LET j  == Len(xs) + 1
        m  == Mu(C, j, st.S)
        s2 == StNext(C, st, j, Grid[i], EstUsed(C, xs, j, e))
    IN  /\ Len(xs) < Horizon
        /\ rem[i] > 0
        /\ xs'  = Append(xs, Grid[i])
        /\ es'  = Append(es, e)
        /\ st'  = s2
        /\ ph'  = Append(ph, PGo(m, s2))
        /\ rem' = IF C.N = 0 \/ AnySample THEN rem ELSE [rem EXCEPT ![i] = @ - 1]

Next == Len(xs) < Horizon /\ \E i \in 1..K : \E e \in EChoices(xs, Mu(C, Len(xs) + 1, st.S)) : Draw(i, e)
Spec == Init /\ [][Next]_vars

(***************************************************************************)
(* Behaviour generation (spec -> code): every reachable sample is printed  *)
(* once; harness/seqtest.py feeds exactly these samples to the code.       *)
(***************************************************************************)
EmitSample == Len(xs) > 0 => PrintT("BEH " \o ToString([k \in 1..Len(xs) |-> RStr(xs[k])]))

(***************************************************************************)
(* C11: histories are well-formed.                                         *)
(***************************************************************************)
IsProb(p) == p # "undef" /\ RLe(Zero, p) /\ RLe(p, One)
WellFormed ==
    /\ Len(ph) = Len(xs)
    /\ \A k \in 1..Len(ph) : IsProb(ph[k])
    /\ Len(xs) > 0 => IsProb(PStop(Len(xs), Mu(C, Len(xs), RSub(st.S, xs[Len(xs)])), st))
MinOf(h) == LET RECURSIVE Mn(_) Mn(k) == IF k = 1 THEN h[1] ELSE RMin(h[k], Mn(k - 1)) IN Mn(Len(h))
Overall(h) == IF C.ro THEN MinOf(h) ELSE h[Len(h)]

(***************************************************************************)
(* C13: shipped estimators and bets stay in range wherever the null        *)
(* conditional mean is in (0, u]; no factor can be negative.               *)
(***************************************************************************)
CurM == Mu(C, Len(xs) + 1, st.S)
CurE == Est(C, xs, Len(xs) + 1)
MInHalfOpen == RLt(Zero, CurM) /\ RLe(CurM, C.u)
EstInRange ==
    (UsesEst(C) /\ C.method # "SPRT" /\ ~Free /\ Len(xs) < Horizon /\ MInHalfOpen) =>
        /\ CurE # "undef"
        /\ IF IsEtaMethod(C) THEN EtaInRange(C, CurE) ELSE LamInRange(C, CurE, CurM)
ShrinkAboveNull ==
    (C.estim = "shrink" /\ C.method = "ALPHA" /\ ~Free /\ Len(xs) < Horizon /\ RLt(Zero, CurM) /\ RLt(CurM, C.u)) =>
        RLt(CurM, CurE)
FactorNonneg ==
    (Len(xs) < Horizon /\ Region(C, CurM) = "in") =>
        \A e \in EChoices(xs, CurM) : \A i \in 1..K :
            LET ee == EstUsed(C, xs, Len(xs) + 1, e) IN
            (ee # "undef" /\ FactorDefined(C, CurM)) => RLe(Zero, Factor(C, Grid[i], ee, CurM))

(***************************************************************************)
(* C01, local form: the conditional expectation of the next factor, given  *)
(* the draws so far, is at most 1 under every null population (weights =   *)
(* what remains of the population, or the law).                            *)
(***************************************************************************)
CondExpLeOne ==
    (~AnySample /\ Len(xs) < Horizon /\ Tot(rem) > 0 /\ FactorDefined(C, CurM) /\ ~RegionDecides(C, CurM)) =>
        \A e \in EChoices(xs, CurM) :
            LET ee == EstUsed(C, xs, Len(xs) + 1, e) IN
            ee # "undef" =>
                RLe(RSumTo([i \in 1..K |-> RMul(RNat(rem[i]), Factor(C, Grid[i], ee, CurM))], K), RNat(Tot(rem)))

(***************************************************************************)
(* C01, the statement itself: the exact probability, over the behaviour    *)
(* tree with the sampling weights, that some reported p-value (history     *)
(* entry, or the value reported when the sample stops there) is <= a, is   *)
(* at most a - for every a the reported values attain (the probability is  *)
(* a step function of a).  With Free the maximum over all predictable      *)
(* choices is taken at every step.                                         *)
(***************************************************************************)
PLe(p, a) == p # "undef" /\ RLe(p, a)
RECURSIVE Hit(_, _, _, _)
Hit(r, xq, s, a) ==
    IF Len(xq) = Horizon \/ Tot(r) = 0 THEN Zero
    ELSE LET j == Len(xq) + 1
             m == Mu(C, j, s.S)
             val(e) ==
               RDiv(RSumTo([i \in 1..K |->
                   IF r[i] = 0 THEN Zero
                   ELSE LET ee == EstUsed(C, xq, j, e)
                            s2 == StNext(C, s, j, Grid[i], ee)
                            r2 == IF C.N = 0 THEN r ELSE [r EXCEPT ![i] = @ - 1]
                        IN  RMul(RNat(r[i]),
                                 IF PLe(PGo(m, s2), a) \/ PLe(PStop(j, m, s2), a) THEN One
                                 ELSE Hit(r2, Append(xq, Grid[i]), s2, a))], K), RNat(Tot(r)))
             vs == {val(e) : e \in EChoices(xq, m)}
         IN  CHOOSE v \in vs : \A w \in vs : RLe(w, v)
RECURSIVE Attained(_, _, _)
Attained(r, xq, s) ==
    IF Len(xq) = Horizon \/ Tot(r) = 0 THEN {}
    ELSE LET j == Len(xq) + 1
             m == Mu(C, j, s.S)
         IN  UNION {UNION { IF r[i] = 0 THEN {}
                            ELSE LET ee == EstUsed(C, xq, j, e)
                                     s2 == StNext(C, s, j, Grid[i], ee)
                                     r2 == IF C.N = 0 THEN r ELSE [r EXCEPT ![i] = @ - 1]
                                 IN  {PGo(m, s2), PStop(j, m, s2)} \cup Attained(r2, Append(xq, Grid[i]), s2)
                            : i \in 1..K} : e \in EChoices(xq, m)}
Ville ==
    (~AnySample /\ Len(xs) = 0) =>
        \A a \in {p \in Attained(rem, <<>>, St0) : p # "undef" /\ RLt(p, One)} :
            RLe(Hit(rem, <<>>, St0, a), RMax(a, Zero))

(***************************************************************************)
(* C12: once the null conditional mean has left (0,u) it never returns, so *)
(* a reported value never depends on a factor with a zero denominator; the *)
(* ALPHA and betting factors agree under eta = m(1 + lam(u - m)); the two  *)
(* conversions are mutual inverses.                                        *)
(***************************************************************************)
Absorbing == [][Region(C, Mu(C, Len(xs) + 1, st.S)) # "in" =>
                (Len(xs') < Horizon => Region(C, Mu(C, Len(xs') + 1, st'.S)) # "in")]_vars
AlphaEqualsBetting ==
    (Len(xs) < Horizon /\ Region(C, CurM) = "in" /\ C.method \in {"ALPHA", "BETTING"}) =>
        \A e \in EChoices(xs, CurM) : e # "undef" => \A i \in 1..K :
            IF C.method = "ALPHA"
            THEN REq(AlphaFactor(C.u, Grid[i], e, CurM), BetFactor(Grid[i], EtaToLam(C.u, e, CurM), CurM))
            ELSE REq(BetFactor(Grid[i], e, CurM), AlphaFactor(C.u, Grid[i], LamToEta(C.u, e, CurM), CurM))
ConvInverse ==
    (Len(xs) < Horizon /\ Region(C, CurM) = "in") =>
        \A e \in FreeChoices(CurM) : e # "none" =>
            IF IsEtaMethod(C) THEN REq(LamToEta(C.u, EtaToLam(C.u, e, CurM), CurM), e)
            ELSE REq(EtaToLam(C.u, LamToEta(C.u, e, CurM), CurM), e)

(***************************************************************************)
(* C05: the history only ever grows by one entry; earlier entries and      *)
(* earlier bets are untouched; stopping can only lower the last entry, and *)
(* only when the observed total exceeds N t.                               *)
(***************************************************************************)
NonAnticipating ==
    [][/\ IsPrefix(ph, ph') /\ Len(ph') = Len(ph) + 1
       /\ IsPrefix(es, es') /\ Len(es') = Len(es) + 1]_vars
StopOnlyLowers ==
    Len(xs) > 0 =>
        LET n == Len(xs)
            m == Mu(C, n, RSub(st.S, xs[n]))
            a == PStop(n, m, st)
            b == ph[n]
        IN  (a # "undef" /\ b # "undef") =>
               /\ RLe(a, b)
               /\ RLt(a, b) => (C.N # 0 /\ RLt(RMul(RNat(C.N), C.t), st.S))
=============================================================================
