--------------------------- MODULE Trace_SampleSize ---------------------------
(***************************************************************************)
(* Trace validation for C16.  The test inside NonnegMean / Assertion is a  *)
(* stub that records the population it is handed and returns a history     *)
(* chosen by the specification, so the records show (a) which hypothetical *)
(* population the code built and (b) which position it reported.           *)
(***************************************************************************)
EXTENDS SampleSize, Json, IOUtils, TLCExt, SequencesExt

TraceRecs == ndJsonDeserialize(IOEnv.TRACE_FILE)
NRec == Len(TraceRecs)
VARIABLE i

Tol == RParse("1/1000000000")
IsNum(s) == s \notin {"nan", "inf", "-inf", "exc"}
Nums(seq) == [k \in 1..Len(seq) |-> RParse(seq[k])]
SameSeq(got, want) == Len(got) = Len(want) /\ \A k \in 1..Len(want) : IsNum(got[k]) /\ RClose(RParse(got[k]), want[k], Tol, Tol)
Hist(r) == Nums(r.hist)
Alpha(r) == RParse(r.alpha)

Clauses(r) ==
    CASE r.kind = "tile" ->
            (IF SameSeq(r.out.pop, Tiled(Nums(r.x), r.N)) THEN {} ELSE {"population:tiled"})
            \cup (IF r.out.result = FirstCrossing(Hist(r), Alpha(r)) THEN {} ELSE {"first_crossing"})
      [] r.kind = "prefix" ->
            (IF r.out.result = r.k THEN {} ELSE {"prefix"})
            \cup (IF r.out.prefix_ok THEN {} ELSE {"prefix:population"})
      [] r.kind = "interleave" ->
            (IF Len(r.out.seq) = r.ns + r.nm + r.nb /\ CountOf(r.out.seq, "s") = r.ns /\ CountOf(r.out.seq, "m") = r.nm
                /\ CountOf(r.out.seq, "b") = r.nb THEN {} ELSE {"interleave:counts"})
            \cup (IF r.out.seq = Interleave(r.ns, r.nm, r.nb) THEN {} ELSE {"interleave:order"})
      [] r.kind = "asn_comparison" ->
            (IF SameSeq(r.out.pop, ComparisonPop(r.N, RParse(r.u), RParse(r.v), r.step1, r.step2)) THEN {} ELSE {"population:comparison"})
            \cup (IF r.out.result = FirstCrossing(Hist(r), Alpha(r)) /\ r.out.attr = r.out.result THEN {} ELSE {"first_crossing"})
      [] r.kind = "asn_polling" ->
            (IF r.out.seq = Interleave(r.ns, r.nm, r.nb) THEN {} ELSE {"population:polling"})
            \cup (IF r.out.result = FirstCrossing(Hist(r), Alpha(r)) /\ r.out.attr = r.out.result THEN {} ELSE {"first_crossing"})
      [] r.kind = "asn_data" ->
            (IF SameSeq(r.out.pop, Tiled(Nums(r.x), r.N)) THEN {} ELSE {"population:tiled"})
            \cup (IF r.out.result = FirstCrossing(Hist(r), Alpha(r)) THEN {} ELSE {"first_crossing"})
      [] r.kind = "audit" ->      \* every contest's estimate is the largest among its own (not yet confirmed) assertions
            LET open(k) == {r.cross[k][j] : j \in {j \in 1..Len(r.cross[k]) : ~r.proved[k][j]}}
                want(k) == IF open(k) = {} THEN 0 ELSE CHOOSE m \in open(k) : \A x \in open(k) : x <= m
                all == {want(k) : k \in 1..Len(r.cross)}
            IN  (IF Len(r.out.sizes) = Len(r.cross) /\ \A k \in 1..Len(r.cross) : r.out.sizes[k] = want(k)
                 THEN {} ELSE {"contest_max"})
                \* without style information one sample serves every contest: the largest of the contests' estimates
                \cup (IF r.style \/ r.out.total = (CHOOSE m \in all : \A x \in all : x <= m) THEN {} ELSE {"audit_max"})
                \* beyond the listed properties: with style information every card gets a sampling probability (1 if already
                \* sampled, else the largest over the contests it lists of  estimate / (cards not yet sampled)), and the
                \* total is the sum over real cards, rounded up
                \cup (IF ~r.style THEN {}
                      ELSE LET nc == Len(r.out.p)
                               old(k) == Cardinality({j \in 1..nc : r.sampled[j] /\ k \in ToSet(r.listing[j])})
                               rate(k) == R(r.out.sizes[k], r.cards[k] - old(k))
                               RECURSIVE MaxRate(_)
                               MaxRate(S) == IF S = {} THEN Zero ELSE LET k == CHOOSE k \in S : TRUE IN RMax(rate(k), MaxRate(S \ {k}))
                               P(j) == IF r.sampled[j] THEN One ELSE MaxRate(ToSet(r.listing[j]))
                               RECURSIVE Sum(_)
                               Sum(j) == IF j = 0 THEN Zero ELSE RAdd(Sum(j - 1), IF r.phantom[j] THEN Zero ELSE P(j))
                               tot == Sum(nc)
                           IN  (IF \A j \in 1..nc : r.out.p[j] # "unset" /\ RClose(RParse(r.out.p[j]), P(j), RParse("1/1000000000"), RParse("1/1000000000"))
                                THEN {} ELSE {"ext:cvr_p"})
                               \cup (IF RLe(tot, RNat(r.out.total)) /\ RLt(RSub(RNat(r.out.total), One), RAdd(tot, RParse("1/1000000")))
                                     THEN {} ELSE {"ext:total"}))
      [] r.kind = "contest" ->
            LET want == CHOOSE m \in {r.cross[k] : k \in 1..Len(r.cross)} : \A k \in 1..Len(r.cross) : r.cross[k] <= m
            IN  IF r.out.result = want /\ r.out.attr = want THEN {} ELSE {"contest_max"}

Verdict(r) == IF "exc" \in DOMAIN r THEN {"exc:" \o r.kind \o ":" \o r.exc.type \o "@" \o r.exc.site} ELSE Clauses(r)

TraceInit == i = 1
TraceNext ==
    \/ /\ i <= NRec
       /\ LET r == TraceRecs[i]  v == Verdict(r)
          IN  IF v = {} THEN TRUE ELSE PrintT("REJ " \o ToJson([tid |-> r.tid, clauses |-> v]))
       /\ i' = i + 1
    \/ /\ i = NRec + 1 /\ PrintT("ACC " \o ToString(NRec)) /\ i' = i + 1
TraceSpec == TraceInit /\ [][TraceNext]_i
TraceAccepted == TLCGet("stats").diameter = NRec + 2
=============================================================================
