---------------------------- MODULE Trace_Phantoms ----------------------------
(***************************************************************************)
(* Trace validation for the accounting half of C08: each record is one     *)
(* TLC-generated input of PhantomsMC run through the real                  *)
(* CVR.make_phantoms.  The phantom part of the output must be the final    *)
(* state of the specification's loop; the accounting statements are also   *)
(* evaluated directly on the code's output.                                *)
(***************************************************************************)
EXTENDS Phantoms, Json, IOUtils, TLCExt, SequencesExt

TraceRecs == ndJsonDeserialize(IOEnv.TRACE_FILE)
NRec == Len(TraceRecs)
VARIABLE i

Styles(seq) == [k \in 1..Len(seq) |-> ToSet(seq[k])]

Clauses(r) ==
    LET cons == r.cons
        conSet == ToSet(cons)
        cv == Styles(r.cvrs)
        n == Len(cv)
        o == r.out
        outS == Styles(o.styles)
        want == Final(cons, cv, r.bounds, r.maxCards, r.style)
        np == Len(outS) - n
    IN  (IF Len(outS) >= n /\ SubSeq(outS, 1, n) = cv /\ SubSeq(o.ids, 1, n) = r.ids
            /\ (\A k \in 1..n : ~o.phantom[k]) /\ o.originals_same THEN {} ELSE {"originals"})
        \cup (IF Len(outS) >= n /\ SubSeq(outS, n + 1, Len(outS)) = want THEN {} ELSE {"phantom_styles"})
        \cup (IF o.n_phantoms = np /\ np = Len(want) THEN {} ELSE {"count"})
        \cup (IF Cardinality(ToSet(o.ids)) = Len(o.ids) THEN {} ELSE {"unique_ids"})
        \cup (IF \A k \in (n + 1)..Len(outS) : o.phantom[k] /\ o.pool[k] = r.pool /\ o.tpool[k] = r.tpool
              THEN {} ELSE {"flags"})
        \cup (IF \A c \in conSet : o.cards[c] = CardsOf(r.bounds[c], r.maxCards, r.style) /\ o.ncvrs[c] = Listing(cv, c)
              THEN {} ELSE {"cards_set"})
        \* the statement itself on the code's output
        \cup (IF (IF r.style THEN \A c \in conSet : Listing(outS, c) = CardsOf(r.bounds[c], r.maxCards, TRUE)
                  ELSE Len(outS) = r.maxCards) THEN {} ELSE {"accounting"})
        \cup (IF r.style => (\A c \in conSet : np >= CardsOf(r.bounds[c], r.maxCards, TRUE) - Listing(cv, c))
                            /\ (np > 0 => \E c \in conSet : np = CardsOf(r.bounds[c], r.maxCards, TRUE) - Listing(cv, c))
              THEN {} ELSE {"shortfall"})

Verdict(r) ==
    {"exc:" \o e.field \o ":" \o e.type \o "@" \o e.site : e \in ToSet(r.excs)}
    \cup (IF "out" \in DOMAIN r THEN Clauses(r) ELSE {})

TraceInit == i = 1
TraceNext ==
    \/ /\ i <= NRec
       /\ LET r == TraceRecs[i]  v == Verdict(r)
          IN  IF v = {} THEN TRUE ELSE PrintT("REJ " \o ToJson([tid |-> r.tid, clauses |-> v]))
       /\ i' = i + 1
    \/ /\ i = NRec + 1 /\ PrintT("ACC " \o ToString(NRec)) /\ i' = i + 1
TraceSpec == TraceInit /\ [][TraceNext]_i
TraceAccepted == TLCGet("stats").diameter = NRec + 2
=============================================================================
