-------------------------------- MODULE Merge --------------------------------
(***************************************************************************)
(* Merging records that carry the same card identifier (CVR.merge_cvrs).   *)
(* An input record is [id, cons, phantom, pool, tpool]: cons = the set of  *)
(* contests it carries (its votes in a contest are identified by the       *)
(* record's position in the input), tpool = "none" or a tally-pool label.  *)
(* The merge absorbs the records one at a time (action Absorb); C18 states *)
(* what the result must be.                                                *)
(***************************************************************************)
EXTENDS Integers, Sequences, FiniteSets, TLC

\* a merged record: [id, votes (contest -> position of the record that supplied it), phantom, pool, tpool]
Find(acc, id) == IF \E k \in 1..Len(acc) : acc[k].id = id THEN CHOOSE k \in 1..Len(acc) : acc[k].id = id ELSE 0
FirstRec(r, pos) == [id |-> r.id, votes |-> [c \in r.cons |-> pos], phantom |-> r.phantom, pool |-> r.pool, tpool |-> r.tpool]
Conflict(old, r) == old.tpool # "none" /\ r.tpool # "none" /\ old.tpool # r.tpool
MergeInto(old, r, pos) ==
    [id |-> old.id,
     votes |-> [c \in (DOMAIN old.votes) \cup r.cons |-> IF c \in r.cons THEN pos ELSE old.votes[c]],   \* the later record wins
     phantom |-> old.phantom /\ r.phantom,
     pool |-> old.pool \/ r.pool,
     tpool |-> IF old.tpool = "none" THEN r.tpool ELSE old.tpool]
\* the merge state is [err, rs]: err = a tally-pool conflict was met (the code raises), rs = merged records so far
M0 == [err |-> FALSE, rs |-> <<>>]
AbsorbInto(m, r, pos) ==
    IF m.err THEN m
    ELSE LET k == Find(m.rs, r.id) IN
         IF k = 0 THEN [m EXCEPT !.rs = Append(@, FirstRec(r, pos))]
         ELSE IF Conflict(m.rs[k], r) THEN [m EXCEPT !.err = TRUE]
         ELSE [m EXCEPT !.rs[k] = MergeInto(m.rs[k], r, pos)]
RECURSIVE MergeAll(_, _)
MergeAll(recs, n) == IF n = 0 THEN M0 ELSE AbsorbInto(MergeAll(recs, n - 1), recs[n], n)

\* declarative side
Ids(recs) == {recs[k].id : k \in 1..Len(recs)}
Of(recs, id) == {k \in 1..Len(recs) : recs[k].id = id}
FirstOf(recs, id) == CHOOSE k \in Of(recs, id) : \A j \in Of(recs, id) : k <= j
HasConflict(recs) == \E i, j \in 1..Len(recs) : recs[i].id = recs[j].id /\ recs[i].tpool # "none"
                                                 /\ recs[j].tpool # "none" /\ recs[i].tpool # recs[j].tpool
=============================================================================
