-------------------------------- MODULE Raire --------------------------------
(***************************************************************************)
(* Declarative RAIRE: ranked ballots, the two kinds of assertion the       *)
(* generator may return, their tallies, which complete elimination orders  *)
(* an assertion contradicts, sufficiency, and the least difficult          *)
(* sufficient set (C04, C14, C15; ElimTree.tla reuses Contradicts).        *)
(*                                                                         *)
(* A ballot is a duplicate-free sequence of candidates (most preferred     *)
(* first, possibly empty).  An assertion is [kind, w, l, elim]:            *)
(*   NEB  w is never eliminated before l: w's first preferences exceed     *)
(*        the ballots that rank l without w or ahead of w;                 *)
(*   NEN  with exactly the candidates in elim eliminated, w has more       *)
(*        votes than l, so w is not eliminated next.                       *)
(* An elimination order lists the candidates first-eliminated first; its   *)
(* last entry is the winner.                                               *)
(***************************************************************************)
EXTENDS Rat, Integers, Sequences, FiniteSets, TLC

Pos(s, c) == IF \E i \in 1..Len(s) : s[i] = c THEN CHOOSE i \in 1..Len(s) : s[i] = c ELSE 0
\* the one definition of "this ballot counts for c when the candidates in E are gone" (C14)
VoteFor(b, c, E) == c \notin E /\ Pos(b, c) # 0 /\ \A i \in 1..(Pos(b, c) - 1) : b[i] \in E
NebW(b, w) == Len(b) >= 1 /\ b[1] = w
NebL(b, w, l) == Pos(b, l) # 0 /\ (Pos(b, w) = 0 \/ Pos(b, l) < Pos(b, w))
ForWinner(a, b) == IF a.kind = "NEB" THEN NebW(b, a.w) ELSE VoteFor(b, a.w, a.elim)
ForLoser(a, b)  == IF a.kind = "NEB" THEN NebL(b, a.w, a.l) ELSE VoteFor(b, a.l, a.elim)
Count(profile, P(_)) == Cardinality({k \in 1..Len(profile) : P(profile[k])})
TallyW(profile, a) == Count(profile, LAMBDA b : ForWinner(a, b))
TallyL(profile, a) == Count(profile, LAMBDA b : ForLoser(a, b))
Holds(profile, a) == TallyW(profile, a) > TallyL(profile, a)
\* the assorter value the audit must give the ballot (C14)
AssortValue(a, b) == R((IF ForWinner(a, b) THEN 1 ELSE 0) - (IF ForLoser(a, b) THEN 1 ELSE 0) + 1, 2)

AllAsn(C) == {[kind |-> "NEB", w |-> w, l |-> l, elim |-> {}] : w \in C, l \in C} \cup
             UNION {{[kind |-> "NEN", w |-> w, l |-> l, elim |-> E] : E \in SUBSET (C \ {w, l})} : w \in C, l \in C}
Asns(C) == {a \in AllAsn(C) : a.w # a.l}
TrueAsn(profile, C) == {a \in Asns(C) : Holds(profile, a)}

Perms(C) == {s \in [1..Cardinality(C) -> C] : \A i, j \in 1..Cardinality(C) : i # j => s[i] # s[j]}
Contradicts(a, order) ==
    IF a.kind = "NEB" THEN Pos(order, a.w) < Pos(order, a.l)
    ELSE LET k == Cardinality(a.elim)
         IN  {order[i] : i \in 1..k} = a.elim /\ order[k + 1] = a.w
AltOrders(C, winner) == {o \in Perms(C) : o[Len(o)] # winner}
Sufficient(A, C, winner) == \A o \in AltOrders(C, winner) : \E a \in A : Contradicts(a, o)
AuditPossible(profile, C, winner) == Sufficient(TrueAsn(profile, C), C, winner)

\* exact difficulties (total = auditable ballots)
Difficulty(fn, tw, tl, total) ==
    IF fn = "cp" THEN R(total, tw - tl) ELSE RDiv(RNat((tw + tl) * total), RNat((tw - tl) * (tw - tl)))
Diff(fn, profile, total, a) == Difficulty(fn, TallyW(profile, a), TallyL(profile, a), total)
RMinSet(S) == CHOOSE x \in S : \A y \in S : RLe(x, y)
RMaxSet(S) == CHOOSE x \in S : \A y \in S : RLe(y, x)
\* hardest alternative order, each ruled out by its easiest true contradicting assertion
Optimum(fn, profile, total, C, winner) ==
    LET T == TrueAsn(profile, C) IN
    RMaxSet({RMinSet({Diff(fn, profile, total, a) : a \in {x \in T : Contradicts(x, o)}}) : o \in AltOrders(C, winner)})
\* the form in the statement of C15: least, over sufficient sets of true assertions, of the largest difficulty -
\* attained by a threshold set {a : difficulty <= d} because Sufficient is monotone
MinMaxOverSets(fn, profile, total, C, winner) ==
    LET T  == TrueAsn(profile, C)
        ds == {Diff(fn, profile, total, a) : a \in T}
    IN  RMinSet({d \in ds : Sufficient({a \in T : RLe(Diff(fn, profile, total, a), d)}, C, winner)})

\* candidates that can win the IRV count under some resolution of ties
RECURSIVE CanWin(_, _, _)
CanWin(profile, C, S) ==       \* S = candidates still standing
    IF Cardinality(S) = 1 THEN S
    ELSE LET tally(c) == Count(profile, LAMBDA b : VoteFor(b, c, C \ S))
             low == {c \in S : \A d \in S : tally(c) <= tally(d)}
         IN  UNION {CanWin(profile, C, S \ {c}) : c \in low}
PossibleWinners(profile, C) == CanWin(profile, C, C)
=============================================================================
