----------------------------- MODULE BallotsInd -----------------------------
(***************************************************************************)
(* The integer core of Ballots / BallotsMC for Apalache: the relation       *)
(* between tallies and (twice) the plurality assorter sums is an INDUCTIVE *)
(* invariant, so it holds for any number of ballots, not only the bounded  *)
(* profiles TLC enumerates; the "iff" of C02 follows from it at any state. *)
(*   apalache-mc check --cinit=CInit --init=IndInit --inv=IndInv --length=1 *)
(*   apalache-mc check --cinit=CInit --init=Init    --inv=IndInv --length=0 *)
(*   apalache-mc check --cinit=CInit --init=IndInit --inv=PluralityIff --length=0 *)
(***************************************************************************)
EXTENDS Integers, FiniteSets

CONSTANT
    \* @type: Set(Str);
    Cands

VARIABLES
    \* @type: Str -> Int;
    marks,
    \* @type: Int;
    n,
    \* @type: Int;
    nc,
    \* @type: <<Str, Str>> -> Int;
    twoSum

CInit == Cands = {"A", "B", "C"}
Pairs == {p \in Cands \X Cands : p[1] # p[2]}
\* @type: (Bool, Set(Str), Str) => Int;
Mark(has, m, c) == IF has /\ c \in m THEN 1 ELSE 0

Init == /\ marks = [c \in Cands |-> 0] /\ n = 0 /\ nc = 0
        /\ twoSum = [p \in Pairs |-> 0]
\* @type: (Bool, Set(Str)) => Bool;
AddBallot(has, m) ==
    /\ n' = n + 1
    /\ nc' = nc + (IF has THEN 1 ELSE 0)
    /\ marks' = [c \in Cands |-> marks[c] + Mark(has, m, c)]
    /\ twoSum' = [p \in Pairs |-> twoSum[p] + Mark(has, m, p[1]) - Mark(has, m, p[2]) + 1]
Next == \E has \in BOOLEAN : \E m \in SUBSET Cands : AddBallot(has, m)

IndInv ==
    /\ n >= 0 /\ nc >= 0 /\ nc <= n
    /\ \A c \in Cands : marks[c] >= 0 /\ marks[c] <= nc
    /\ \A p \in Pairs : twoSum[p] = marks[p[1]] - marks[p[2]] + n
IndInit ==
    /\ marks \in [Cands -> Int] /\ n \in Int /\ nc \in Int
    /\ twoSum \in [Pairs -> Int]
    /\ IndInv

WinnerSets == {W \in SUBSET Cands : W # {} /\ W # Cands}
\* all winner-versus-loser assorter means exceed 1/2 (twoSum > n) exactly when the winners really won
PluralityIff ==
    n > 0 => \A W \in WinnerSets :
        (\A w \in W : \A l \in Cands \ W : twoSum[<<w, l>>] > n)
        <=> (\A w \in W : \A l \in Cands \ W : marks[w] > marks[l])
=============================================================================
