--------------------------- MODULE DominionImport ---------------------------
(***************************************************************************)
(* Import of a Dominion JSON export (Dominion.read_cvrs).                  *)
(* A session is [tab, batch, rec, group, keys, orig, modi] where keys is   *)
(* the order in which "Original" / "Modified" appear in the file, orig and *)
(* modi are sequences of contests [id, marks] and a mark is                *)
(* [cand, rank, isvote].  Options: useCurrent, enforce, include, pool.     *)
(*                                                                         *)
(* C19: one record per session of the included groups, in file order;      *)
(* id / tally pool from tabulator, batch, record; pooled iff its group is  *)
(* designated; per candidate the smallest positive rank among the counted  *)
(* marks whatever their order; uncounted marks ignored iff rules are       *)
(* enforced; adjudicated data replace original data for the contests they  *)
(* cover, whichever comes first in the file.                               *)
(***************************************************************************)
EXTENDS Integers, Sequences, FiniteSets, TLC

Absent == -1
Counted(m, enforce) == m.isvote \/ ~enforce
\* declarative: smallest positive rank among the candidate's counted marks (0 if none is positive, Absent if none counted)
Value(marks, cand, enforce) ==
    LET S == {k \in 1..Len(marks) : marks[k].cand = cand /\ Counted(marks[k], enforce)}
        P == {marks[k].rank : k \in {j \in S : marks[j].rank > 0}}
    IN  IF S = {} THEN Absent ELSE IF P = {} THEN 0 ELSE CHOOSE r \in P : \A q \in P : r <= q
\* procedural: the left-to-right fold the code performs
RECURSIVE Fold(_, _, _, _)
Fold(marks, k, enforce, acc) ==      \* acc: function candidate -> rank or Absent
    IF k > Len(marks) THEN acc
    ELSE LET m == marks[k] IN
         IF ~Counted(m, enforce) THEN Fold(marks, k + 1, enforce, acc)
         ELSE IF acc[m.cand] = Absent THEN Fold(marks, k + 1, enforce, [acc EXCEPT ![m.cand] = m.rank])
         ELSE IF m.rank > 0
              THEN Fold(marks, k + 1, enforce,
                        [acc EXCEPT ![m.cand] = IF acc[m.cand] > 0 THEN (IF acc[m.cand] < m.rank THEN acc[m.cand] ELSE m.rank) ELSE m.rank])
              ELSE Fold(marks, k + 1, enforce, acc)
ContestVotes(marks, cands, enforce) == [c \in cands |-> Value(marks, c, enforce)]

\* votes of a session: original contests, replaced contest by contest by the adjudicated ones when current data are wanted
ContestIds(cs) == {cs[k].id : k \in 1..Len(cs)}
LastWithId(cs, id) == cs[CHOOSE k \in 1..Len(cs) : cs[k].id = id /\ \A j \in (k + 1)..Len(cs) : cs[j].id # id]
SessionContests(s, useCurrent) ==
    LET hasM == useCurrent /\ \E k \in 1..Len(s.keys) : s.keys[k] = "Modified"
        ids == ContestIds(s.orig) \cup (IF hasM THEN ContestIds(s.modi) ELSE {})
    IN  [id \in ids |-> IF hasM /\ id \in ContestIds(s.modi) THEN LastWithId(s.modi, id).marks ELSE LastWithId(s.orig, id).marks]
Included(s, include) == include = {} \/ s.group \in include
=============================================================================
