------------------------------ MODULE Comparison ------------------------------
(***************************************************************************)
(* Card-level comparison and ONEAudit: what each sampled card is compared  *)
(* to, the overstatement assorter, the data handed to the test and its     *)
(* bound (Assertion.set_margin_from_cvrs, Assorter.set_tally_pool_means,   *)
(* Assorter.overstatement, Assertion.overstatement_assorter,               *)
(* Assertion.mvrs_to_data).                                                *)
(*                                                                         *)
(* A card is  [cs, ph, pool, ms]:                                          *)
(*   cs   what the CVR shows for this assertion: "w" (assorter value u),   *)
(*        "l" (0), "n" (1/2: blank, invalid, other), "x" (the CVR does not *)
(*        list the contest);                                               *)
(*   ph   the CVR is a phantom (then cs is "n" or "x");                    *)
(*   pool "none", or the label of the tally pool whose mean replaces the   *)
(*        CVR's own value (ONEAudit);                                      *)
(*   ms   what the manual record shows: "w","l","n", "x" (lacks the        *)
(*        contest), "u" (the card could not be found: phantom MVR).        *)
(* u is the assorter's upper bound; style = style-based sampling.          *)
(***************************************************************************)
EXTENDS Rat, Integers, Sequences, FiniteSets, TLC

CvrClasses == {"w", "l", "n", "x"}
MvrClasses == {"w", "l", "n", "x", "u"}
Val(cls, u) == IF cls = "w" THEN u ELSE IF cls = "l" THEN Zero ELSE Half

UnderAudit(c, style) == style => c.cs # "x"
Idx(cards, style) == {k \in 1..Len(cards) : UnderAudit(cards[k], style)}

RECURSIVE RSumSet(_, _)
RSumSet(f, S) == IF S = {} THEN Zero ELSE LET k == CHOOSE k \in S : TRUE IN RAdd(f[k], RSumSet(f, S \ {k}))
MeanOver(f, S) == RDiv(RSumSet(f, S), RNat(Cardinality(S)))

\* the assorter applied to the CVR itself (a phantom or a CVR without the contest scores 1/2)
CvrRaw(c, u) == Val(c.cs, u)
\* reported assorter margin over the cards under audit
Margin(cards, style, u) ==
    RSub(RMul(RNat(2), MeanOver([k \in 1..Len(cards) |-> CvrRaw(cards[k], u)], Idx(cards, style))), One)
PoolIdx(cards, style, p) == {k \in Idx(cards, style) : cards[k].pool = p}
PoolMean(cards, style, u, p) ==
    IF PoolIdx(cards, style, p) = {} THEN "nan"
    ELSE MeanOver([k \in 1..Len(cards) |-> CvrRaw(cards[k], u)], PoolIdx(cards, style, p))
\* what the manual record is compared to
CvrScore(cards, k, style, u) ==
    LET c == cards[k] IN
    IF c.pool # "none" THEN PoolMean(cards, style, u, c.pool)
    ELSE IF c.ph THEN Half ELSE Val(c.cs, u)
\* the assorter applied to the manual record: unfindable -> 0; lacks the contest -> 0 under style, else 1/2
MvrScore(c, style, u) ==
    IF c.ms = "u" THEN Zero
    ELSE IF c.ms = "x" THEN (IF style THEN Zero ELSE Half)
    ELSE Val(c.ms, u)
\* overstatement assorter  (1 - (cvr - mvr)/u) / (2 - v/u)
B(cards, k, style, u, v) ==
    RDiv(RSub(One, RDiv(RSub(CvrScore(cards, k, style, u), MvrScore(cards[k], style, u)), u)),
         RSub(RNat(2), RDiv(v, u)))
TestBound(u, v) == RDiv(RNat(2), RSub(RNat(2), RDiv(v, u)))      \* 2/(2 - v/u)

\* ONEAudit padding (CVR.pool_contests / add_pool_contests): every pooled CVR of a pool in which some pooled CVR lists the
\* contest is made to list it (with no votes: class "n")
Padded(cards) ==
    [k \in 1..Len(cards) |->
        IF cards[k].pool # "none" /\ cards[k].cs = "x"
           /\ \E j \in 1..Len(cards) : cards[j].pool = cards[k].pool /\ cards[j].cs # "x"
        THEN [cards[k] EXCEPT !.cs = "n"] ELSE cards[k]]

\* cards (positions) contributing data for the contest: under audit and, under style, within the threshold
\* (position k carries the k-th smallest sample number; thr = position of the contest's last card)
Contributors(cards, style, thr) == {k \in Idx(cards, style) : style => k <= thr}
\* polling: the raw assorter applied to the manual record (an unfindable card scores 1/2 - see DESIGN.md)
PollScore(c, u) == IF c.ms \in {"u", "x"} THEN Half ELSE Val(c.ms, u)
=============================================================================
