----------------------------- MODULE AuditFlowMC -----------------------------
(* AuditFlow with a history variable, for behaviour generation (spec -> code). *)
EXTENDS AuditFlow, Json
CONSTANT Depth
VARIABLE hist
Act(name, ps) == [act |-> name, ps |-> [a \in 1..NA |-> [p |-> RStr(ps[a].p), n |-> ps[a].n]]]
HInit == Init /\ hist = <<>>
HNext == /\ Len(hist) < Depth
         /\ \/ \E ps \in [1..NA -> [p : PGrid, n : HLens]] : SetP(ps) /\ hist' = Append(hist, Act("setp", ps))
            \/ Summarize /\ hist' = Append(hist, [act |-> "summarize", ps |-> <<>>])
            \/ Reset /\ hist' = Append(hist, [act |-> "reset", ps |-> <<>>])
Emit == Len(hist) = Depth =>
          PrintT("BEH " \o ToJson([conf |-> [a \in 1..NA |-> [con |-> conf[a].con, lim |-> RStr(conf[a].lim)]], hist |-> hist]))
=============================================================================
