------------------------------ MODULE SeqTest ------------------------------
(***************************************************************************)
(* Sequential tests of "the mean of a population of values in [0,u] is at  *)
(* most t" as SHANGRLA's NonnegMean offers them: one transition per ballot *)
(* drawn (running sum, null conditional mean, alternative mean or bet,     *)
(* factor, statistic, reported p-value).                                   *)
(*                                                                         *)
(* Everything is a function of a configuration record c                    *)
(*   [method, estim, N (0 = infinite population, IID draws), u, t,         *)
(*    eta, lam, g, d, cs, cg, p2, ro]                                      *)
(* so that the model-checking configurations (SeqTestMC) and the trace   *)
(* specification (Trace_SeqTest, where c comes from each trace record) use *)
(* the same definitions.  All arithmetic is exact (module Rat).            *)
(*                                                                         *)
(* Properties decided here: C01 (Ville / conditional expectation), C05     *)
(* (non-anticipation), C11 (well-formed histories), C12 (published form of *)
(* each statistic, ALPHA = betting), C13 (ranges of estimators and bets).  *)
(***************************************************************************)
EXTENDS Rat, Integers, Sequences, FiniteSets, TLC

(***************************************************************************)
(* 2^-52, the "eps" of the documentation (u*(1-eps), c_grapa = 1-eps).     *)
(***************************************************************************)
Pow2m52 == LET h == RDiv(One, RNat(67108864)) IN RMul(h, h)      \* 2^-26 * 2^-26
OneMinusEps == RSub(One, Pow2m52)

(***************************************************************************)
(* Sums over a sequence of rationals.                                      *)
(***************************************************************************)
RECURSIVE PSum(_, _)
PSum(xs, k) == IF k = 0 THEN Zero ELSE RAdd(PSum(xs, k - 1), xs[k])      \* x_1 + .. + x_k
RECURSIVE PSq(_, _)
PSq(xs, k) == IF k = 0 THEN Zero ELSE RAdd(PSq(xs, k - 1), RMul(xs[k], xs[k]))
Mean(xs, k) == RDiv(PSum(xs, k), RNat(k))                                 \* k >= 1
Var(xs, k)  == RSub(RDiv(PSq(xs, k), RNat(k)), RMul(Mean(xs, k), Mean(xs, k)))   \* population variance

(***************************************************************************)
(* The null conditional mean before draw j (S = sum of the first j-1       *)
(* draws):  (N t - S)/(N - j + 1), or t for an infinite population.        *)
(***************************************************************************)
MuGen(N, t, j, S) == IF N = 0 THEN t ELSE RDiv(RSub(RMul(RNat(N), t), S), RNat(N - j + 1))
Mu(c, j, S) == MuGen(c.N, c.t, j, S)

Region(c, m) == IF RLt(m, Zero) THEN "neg"
                ELSE IF RIsZero(m) THEN "zero"
                ELSE IF REq(m, c.u) THEN "u"
                ELSE IF RLt(c.u, m) THEN "gt" ELSE "in"

(***************************************************************************)
(* Factors (the published definitions).                                    *)
(***************************************************************************)
AlphaFactor(u, x, eta, m) ==
    RDiv(RAdd(RDiv(RMul(x, eta), m), RDiv(RMul(RSub(u, x), RSub(u, eta)), RSub(u, m))), u)
BetFactor(x, lam, m) == RAdd(One, RMul(lam, RSub(x, m)))
LamToEta(u, lam, m) == RMul(m, RAdd(One, RMul(lam, RSub(u, m))))
EtaToLam(u, eta, m) == RDiv(RSub(RDiv(eta, m), One), RSub(u, m))       \* 0 < m < u

IsEtaMethod(c) == c.method \in {"ALPHA", "SPRT"}
UsesEst(c)     == c.method \in {"ALPHA", "BETTING", "SPRT"}

(***************************************************************************)
(* Is the factor of draw j defined (no zero denominator)?                  *)
(***************************************************************************)
FactorDefined(c, m) ==
    CASE c.method \in {"ALPHA", "SPRT"} -> ~RIsZero(m) /\ ~REq(m, c.u)
      [] c.method = "BETTING"           -> TRUE
      [] c.method = "KK"                -> ~RIsZero(RAdd(m, c.g))
      [] c.method = "KM"                -> ~RIsZero(RAdd(c.t, c.g))
      [] c.method = "KW"                -> TRUE
Factor(c, x, e, m) ==
    CASE c.method \in {"ALPHA", "SPRT"} -> AlphaFactor(c.u, x, e, m)
      [] c.method = "BETTING"           -> BetFactor(x, e, m)
      [] c.method = "KK"                -> RDiv(RAdd(x, c.g), RAdd(m, c.g))
      [] c.method = "KM"                -> RDiv(RAdd(x, c.g), RAdd(c.t, c.g))
      [] c.method = "KW"                -> RAdd(RMul(RSub(One, c.g), RDiv(x, c.t)), c.g)

(***************************************************************************)
(* Reported p-value at a step, given the region of the null conditional    *)
(* mean and the statistic T after the draw.  min(1, 1/T) is applied        *)
(* literally (also to a negative T): a bet out of range is blamed on the   *)
(* range clause, not on the form of the statistic.                         *)
(***************************************************************************)
InvCap(T) == IF RIsZero(T) THEN One ELSE RMin(One, RDiv(One, T))
\* Kaplan-Kolmogorov: the padded null conditional mean is negative, or it is zero while every padded value is
\* at least g > 0 (the factor is a positive number over zero: the statistic is +infinity, the value 0).
\* With g = 0 a zero mean and a zero draw give 0/0: that case stays undefined (KF-KK-NAN).
KKImpossible(c, m) == RLt(RAdd(m, c.g), Zero) \/ (RIsZero(RAdd(m, c.g)) /\ RLt(Zero, c.g))
PStep(c, m, T) ==
    CASE c.method \in {"ALPHA", "BETTING"} ->
            LET r == Region(c, m) IN
            IF r = "neg" THEN Zero ELSE IF r \in {"zero", "u", "gt"} THEN One ELSE InvCap(T)
      [] c.method = "KK"   -> IF KKImpossible(c, m) THEN Zero ELSE InvCap(T)
      [] c.method = "SPRT" -> IF RLt(m, Zero) THEN Zero ELSE InvCap(T)
      [] OTHER             -> InvCap(T)
\* does the region alone fix the reported value (statistic irrelevant)?
RegionDecides(c, m) ==
    CASE c.method \in {"ALPHA", "BETTING"} -> Region(c, m) # "in"
      [] c.method = "KK"   -> KKImpossible(c, m)
      [] c.method = "SPRT" -> RLt(m, Zero)
      [] OTHER             -> FALSE
\* the last entry is 0 when the observed total exceeds N t (ALPHA and betting only)
LastOverride(c, n, total) ==
    c.method \in {"ALPHA", "BETTING"} /\ c.N # 0 /\ RLt(RMul(RNat(c.N), c.t), total)

(***************************************************************************)
(* The shipped alternative-mean estimators and betting rules, transcribed  *)
(* from their documentation; xs = the draws so far, j = Len(xs)+1 the draw *)
(* the value is applied to.  "undef" where the documented formula has no   *)
(* value (0/0).                                                            *)
(*   cs[j] = a rational approximation of c/sqrt(d+j-1) (12 digits).        *)
(***************************************************************************)
EstFixed(c, xs, j) ==      \* (N eta - S_j)/(N-j+1) truncated to [0, u], or eta
    RMax(Zero, RMin(c.u, MuGen(c.N, c.eta, j, PSum(xs, j - 1))))
EstShrink(c, xs, j) ==     \* f = 0:  min(u(1-eps), max((d eta + S_j)/(d+j-1), m_j + c/sqrt(d+j-1)))
    LET S == PSum(xs, j - 1)
        m == Mu(c, j, S)
        w == RDiv(RAdd(RMul(RNat(c.d), c.eta), S), RNat(c.d + j - 1))
    IN  RMin(RMul(c.u, OneMinusEps), RMax(w, RAdd(m, c.cs[j])))
\* (1 - u(1-p2))/(2-2u) + u(1-p2) - 1/2, but never below the null conditional mean of the draw it is applied to
\* (since the repair of DESIGN.md 9.3: the bare formula is a constant, which a finite population's null mean can
\* overtake - and which is negative for very small margins - and ALPHA is no supermartingale for eta < mu)
EstOptCompFormula(c) ==
    LET a == RMul(c.u, RSub(One, c.p2))
    IN  RSub(RAdd(RDiv(RSub(One, a), RSub(RNat(2), RMul(RNat(2), c.u))), a), Half)
EstOptComp(c, xs, j) == RMax(EstOptCompFormula(c), Mu(c, j, PSum(xs, j - 1)))
BetAgrapa(c, xs, j) ==     \* c_grapa_grow = 0
    LET m == Mu(c, j, PSum(xs, j - 1)) IN
    IF j = 1 THEN (IF RIsZero(m) THEN "undef" ELSE RMax(Zero, RMin(RDiv(c.cg, m), c.lam)))
    ELSE LET mp  == Mu(c, j - 1, PSum(xs, j - 2))      \* null mean before the previous draw
             mu  == Mean(xs, j - 1)
             den == RAdd(Var(xs, j - 1), RMul(RSub(mp, mu), RSub(mp, mu)))
         IN  IF RIsZero(den) \/ RIsZero(m) THEN "undef"
             ELSE RMax(Zero, RMin(RDiv(c.cg, m), RDiv(RSub(mu, mp), den)))
Est(c, xs, j) ==
    CASE c.estim = "fixed"    -> EstFixed(c, xs, j)
      [] c.estim = "shrink"   -> EstShrink(c, xs, j)
      [] c.estim = "optcomp"  -> EstOptComp(c, xs, j)
      [] c.estim = "fixedbet" -> c.lam
      [] c.estim = "agrapa"   -> BetAgrapa(c, xs, j)
      [] OTHER                -> "undef"

(***************************************************************************)
(* Ranges (C13) and the range under which the conditional expectation of   *)
(* the factor is at most 1 whatever the null population (C01).             *)
(***************************************************************************)
EtaInRange(c, e)      == RLe(Zero, e) /\ RLe(e, c.u)
LamInRange(c, l, m)   == RLe(Zero, l) /\ RLe(RMul(l, m), One)                \* 0 <= lam <= 1/m, m > 0
SuperMgRange(c, e, m) == IF IsEtaMethod(c) THEN RLe(m, e) /\ RLe(e, c.u)    \* m <= eta <= u
                         ELSE LamInRange(c, e, m)

(***************************************************************************)
(* The running statistic: st = [S, T, ok].  ok becomes FALSE when a factor *)
(* is undefined outside an absorbing region, or the bet is not a number.   *)
(***************************************************************************)
St0 == [S |-> Zero, T |-> One, ok |-> TRUE]
StNext(c, st, j, x, e) ==
    LET m  == Mu(c, j, st.S)
        df == st.ok /\ e # "undef" /\ FactorDefined(c, m)
    IN  [S |-> RAdd(st.S, x), T |-> IF df THEN RMul(st.T, Factor(c, x, e, m)) ELSE st.T, ok |-> df]
\* The definition fixes the reported value at draw j iff the region decides or the product is defined.
Demands(c, st2, m) == RegionDecides(c, m) \/ st2.ok
\* The alternative the method itself prescribes (SPRT), else the supplied one.
EstUsed(c, xs, j, e) == IF c.method = "SPRT" THEN EstFixed(c, xs, j) ELSE e

=============================================================================
