------------------------------- MODULE Phantoms -------------------------------
(***************************************************************************)
(* Phantom-record creation (CVR.make_phantoms) as the loop the code runs:  *)
(* style off - one block of max_cards - #CVRs phantoms listing no contest; *)
(* style on  - per contest (in dictionary order) extend the phantom list   *)
(*             to the contest's shortfall and list the contest on the      *)
(*             first `shortfall` phantoms.                                 *)
(* C08 (accounting half) as invariants of the final state.                 *)
(***************************************************************************)
EXTENDS Integers, Sequences, FiniteSets, TLC

\* shared with Trace_Phantoms --------------------------------------------------
NoBound == -1     \* "bound not specified"
Listing(styles, c) == Cardinality({k \in 1..Len(styles) : c \in styles[k]})
CardsOf(bound, maxCards, style) == IF bound = NoBound \/ ~style THEN maxCards ELSE bound
\* effect of one iteration of the per-contest loop on the phantom list pv
Iter(pv, c, needed) ==
    LET ext == IF Len(pv) < needed THEN pv \o [k \in 1..(needed - Len(pv)) |-> {}] ELSE pv
    IN  [k \in 1..Len(ext) |-> IF k <= needed THEN ext[k] \cup {c} ELSE ext[k]]
RECURSIVE Loop(_, _, _, _, _)
Loop(pv, cons, cvrStyles, bounds, maxCards) ==      \* cons: sequence of contests still to process
    IF cons = <<>> THEN pv
    ELSE LET c == Head(cons)
             needed == CardsOf(bounds[c], maxCards, TRUE) - Listing(cvrStyles, c)
         IN  Loop(Iter(pv, c, needed), Tail(cons), cvrStyles, bounds, maxCards)
Final(cons, cvrStyles, bounds, maxCards, style) ==
    IF style THEN Loop(<<>>, cons, cvrStyles, bounds, maxCards)
    ELSE [k \in 1..(maxCards - Len(cvrStyles)) |-> {}]
=============================================================================
