import java.math.BigInteger;
import java.util.concurrent.ConcurrentHashMap;
import tlc2.value.impl.*;
import util.UniqueString;

// Module override for Rat.tla: a rational is the normalised string "n/d" (d > 0, gcd 1).
public class Rat {
  static final ConcurrentHashMap<String, BigInteger[]> cache = new ConcurrentHashMap<>();
  static BigInteger[] p(Value v) {
    String s = ((StringValue) v).val.toString();
    BigInteger[] r = cache.get(s);
    if (r != null) return r;
    int i = s.indexOf('/');
    if (i < 0) r = new BigInteger[]{new BigInteger(s), BigInteger.ONE};
    else r = new BigInteger[]{new BigInteger(s.substring(0, i)), new BigInteger(s.substring(i + 1))};
    if (r[1].signum() == 0) throw new ArithmeticException("Rat: zero denominator in " + s);
    if (s.length() < 64 && cache.size() < 200000) cache.put(s, r);
    return r;
  }
  static Value mk(BigInteger n, BigInteger d) {
    if (d.signum() == 0) throw new ArithmeticException("Rat: division by zero");
    if (d.signum() < 0) { n = n.negate(); d = d.negate(); }
    BigInteger g = n.gcd(d);
    if (g.signum() != 0 && !g.equals(BigInteger.ONE)) { n = n.divide(g); d = d.divide(g); }
    if (n.signum() == 0) d = BigInteger.ONE;
    return new StringValue(n.toString() + "/" + d.toString());
  }
  static BigInteger bi(Value v) { return BigInteger.valueOf(((IntValue) v).val); }
  static Value b(boolean x) { return x ? BoolValue.ValTrue : BoolValue.ValFalse; }
  static int cmp(Value a, Value c) { BigInteger[] x = p(a), y = p(c); return x[0].multiply(y[1]).compareTo(y[0].multiply(x[1])); }

  public static Value R(Value n, Value d) { return mk(bi(n), bi(d)); }
  public static Value RNat(Value n) { return mk(bi(n), BigInteger.ONE); }
  public static Value Zero() { return new StringValue("0/1"); }
  public static Value One() { return new StringValue("1/1"); }
  public static Value Half() { return new StringValue("1/2"); }
  public static Value RAdd(Value a, Value c) { BigInteger[] x = p(a), y = p(c); return mk(x[0].multiply(y[1]).add(y[0].multiply(x[1])), x[1].multiply(y[1])); }
  public static Value RSub(Value a, Value c) { BigInteger[] x = p(a), y = p(c); return mk(x[0].multiply(y[1]).subtract(y[0].multiply(x[1])), x[1].multiply(y[1])); }
  public static Value RMul(Value a, Value c) { BigInteger[] x = p(a), y = p(c); return mk(x[0].multiply(y[0]), x[1].multiply(y[1])); }
  public static Value RDiv(Value a, Value c) { BigInteger[] x = p(a), y = p(c); return mk(x[0].multiply(y[1]), x[1].multiply(y[0])); }
  public static Value RNeg(Value a) { BigInteger[] x = p(a); return mk(x[0].negate(), x[1]); }
  public static Value RLe(Value a, Value c) { return b(cmp(a, c) <= 0); }
  public static Value RLt(Value a, Value c) { return b(cmp(a, c) < 0); }
  public static Value REq(Value a, Value c) { return b(cmp(a, c) == 0); }
  public static Value RIsZero(Value a) { return b(p(a)[0].signum() == 0); }
  public static Value RSign(Value a) { return IntValue.gen(p(a)[0].signum()); }
  public static Value RMin(Value a, Value c) { return cmp(a, c) <= 0 ? mk(p(a)[0], p(a)[1]) : mk(p(c)[0], p(c)[1]); }
  public static Value RMax(Value a, Value c) { return cmp(a, c) <= 0 ? mk(p(c)[0], p(c)[1]) : mk(p(a)[0], p(a)[1]); }
  public static Value RAbs(Value a) { BigInteger[] x = p(a); return mk(x[0].abs(), x[1]); }
  public static Value RFloor(Value a) {
    BigInteger[] x = p(a); BigInteger[] qr = x[0].divideAndRemainder(x[1]);
    BigInteger q = qr[0]; if (qr[1].signum() < 0) q = q.subtract(BigInteger.ONE);
    return IntValue.gen(q.intValueExact());
  }
  public static Value RStr(Value a) { BigInteger[] x = p(a); return mk(x[0], x[1]); }
  public static Value RClose(Value a, Value c, Value tolA, Value tolR) {
    BigInteger[] x = p(a), y = p(c), ta = p(tolA), tr = p(tolR);
    // |x - y| <= ta + tr*|y|
    BigInteger ln = x[0].multiply(y[1]).subtract(y[0].multiply(x[1])).abs(), ld = x[1].multiply(y[1]);
    BigInteger rn = ta[0].multiply(tr[1]).multiply(y[1]).add(tr[0].multiply(y[0].abs()).multiply(ta[1]));
    BigInteger rd = ta[1].multiply(tr[1]).multiply(y[1]);
    return b(ln.multiply(rd).compareTo(rn.multiply(ld)) <= 0);
  }
  public static Value RParse(Value s) { BigInteger[] x = p(s); return mk(x[0], x[1]); }
  public static Value RatOverridden() { return BoolValue.ValTrue; }
}
