----------------------------- MODULE SampleSizeMC -----------------------------
(***************************************************************************)
(* Cases for C16, generated exhaustively:                                  *)
(*  "tile"        pilot vector x (non-constant, on PGrid), N, and a        *)
(*                p-history that first reaches the risk limit at position  *)
(*                c (0 = never);                                           *)
(*  "interleave"  counts (ns, nm, nb), nb >= 1.                            *)
(***************************************************************************)
EXTENDS SampleSize, Json
CONSTANTS PilotVals, MaxPilot, MaxN, MaxCount, Mode

VARIABLE cs
Pilots == UNION {{x \in [1..k -> PilotVals] : \E a, b \in 1..k : x[a] # x[b]} : k \in 2..MaxPilot}
TileCases == {[kind |-> "tile", x |-> x, N |-> n, c |-> c] : x \in Pilots, n \in 1..MaxN, c \in 0..MaxN}
IlvCases == [kind : {"interleave"}, ns : 0..MaxCount, nm : 0..MaxCount, nb : 1..MaxCount]
Init == cs \in (IF Mode = "tile" THEN {t \in TileCases : Len(t.x) < t.N /\ t.c <= t.N} ELSE IlvCases)
Next == UNCHANGED cs

Alpha == R(1, 20)
HistFor(n, c) == [k \in 1..n |-> IF c # 0 /\ k = c THEN Alpha ELSE IF c # 0 /\ k > c THEN R(1, 100 * k) ELSE One]
\* C16 on the specification
FirstCrossingIsC == cs.kind = "tile" => FirstCrossing(HistFor(cs.N, cs.c), Alpha) = (IF cs.c = 0 THEN cs.N ELSE cs.c)
PrefixDecides ==        \* if a prefix of length >= c already crosses at c, every extension has the same first crossing
    (cs.kind = "tile" /\ cs.c # 0) =>
        \A m \in cs.c..cs.N : FirstCrossing(SubSeq(HistFor(cs.N, cs.c), 1, m), Alpha) = cs.c
TiledIsPeriodic == cs.kind = "tile" => \A k \in 1..cs.N : Tiled(cs.x, cs.N)[k] = cs.x[((k - 1) % Len(cs.x)) + 1]
InterleaveCounts ==
    cs.kind = "interleave" =>
        LET s == Interleave(cs.ns, cs.nm, cs.nb) IN
        /\ Len(s) = cs.ns + cs.nm + cs.nb
        /\ CountOf(s, "s") = cs.ns /\ CountOf(s, "m") = cs.nm /\ CountOf(s, "b") = cs.nb
        /\ (cs.ns > 0 => s[1] = "s")
Emit == PrintT("BEH " \o ToJson(IF cs.kind = "tile" THEN [kind |-> "tile", x |-> [k \in 1..Len(cs.x) |-> RStr(cs.x[k])], N |-> cs.N, c |-> cs.c]
                                ELSE cs))
=============================================================================
