----------------------------- MODULE Trace_Merge -----------------------------
(***************************************************************************)
(* Trace validation for C18: each record is one TLC-generated input list   *)
(* run through the real CVR.merge_cvrs; the result must be the final state *)
(* of the specification's merge, or an error exactly on a tally-pool       *)
(* conflict.  ("reader" records: the RAIRE-format reader, shared with      *)
(* Trace_Raire.)                                                           *)
(***************************************************************************)
EXTENDS Merge, Json, IOUtils, TLCExt, SequencesExt

TraceRecs == ndJsonDeserialize(IOEnv.TRACE_FILE)
NRec == Len(TraceRecs)
VARIABLE i

InOf(r) == [k \in 1..Len(r.recs) |-> [id |-> r.recs[k].id, cons |-> ToSet(r.recs[k].cons), phantom |-> r.recs[k].phantom,
                                      pool |-> r.recs[k].pool, tpool |-> r.recs[k].tpool]]
Clauses(r) ==
    LET recs == InOf(r)
        want == MergeAll(recs, Len(recs))
    IN  IF r.error THEN (IF want.err THEN {} ELSE {"error:spurious"})
        ELSE IF want.err THEN {"error:missing"}
        ELSE LET o == r.out  w == want.rs IN
             IF Len(o) # Len(w) THEN {"one_per_id"}
             ELSE (IF \A k \in 1..Len(w) : o[k].id = w[k].id THEN {} ELSE {"order"})
                  \cup (IF \A k \in 1..Len(w) : DOMAIN o[k].votes = DOMAIN w[k].votes THEN {} ELSE {"contests"})
                  \cup (IF \A k \in 1..Len(w) : \A c \in (DOMAIN o[k].votes) \cap (DOMAIN w[k].votes) : o[k].votes[c] = w[k].votes[c]
                        THEN {} ELSE {"later_wins"})
                  \cup (IF \A k \in 1..Len(w) : o[k].phantom = (IF w[k].phantom THEN "true" ELSE "false") THEN {} ELSE {"phantom"})
                  \cup (IF \A k \in 1..Len(w) : o[k].pool = (IF w[k].pool THEN "true" ELSE "false") THEN {} ELSE {"pool"})
                  \cup (IF \A k \in 1..Len(w) : o[k].tpool = w[k].tpool THEN {} ELSE {"tally_pool"})

\* RAIRE-format reader: rank k for the k-th listed candidate, header lines skipped, a card's contests merged.
\* got = the recorded candidates in rank order with their ranks.  A candidate listed once has its listing position
\* as rank; one listed more than once has one of its listing positions (the statement does not say which).
RankOK(P, got) ==
    LET Pos(c) == {j \in 1..Len(P) : P[j] = c}
        listed == {P[j] : j \in 1..Len(P)}
    IN  /\ Len(got.ranking) = Len(got.ranks)
        /\ Len(got.ranking) = Cardinality(listed)
        /\ {got.ranking[k] : k \in 1..Len(got.ranking)} = listed
        /\ \A k \in 1..Len(got.ranking) : got.ranks[k] \in Pos(got.ranking[k])
ReaderClauses(r) ==
    (IF \A k \in 1..Len(r.rows) :
          LET row == r.rows[k]  got == r.cvr_reader[k]
          IN  RankOK(row.prefs, got)
     THEN {} ELSE {"reader:rank"})
    \cup (IF r.n_cards = Cardinality({r.rows[k].bid : k \in 1..Len(r.rows)}) THEN {} ELSE {"reader:merge"})

Verdict(r) ==
    IF "exc" \in DOMAIN r THEN {"exc:" \o r.exc.type \o "@" \o r.exc.site}
    ELSE IF r.kind = "reader" THEN ReaderClauses(r) ELSE Clauses(r)

TraceInit == i = 1
TraceNext ==
    \/ /\ i <= NRec
       /\ LET r == TraceRecs[i]  v == Verdict(r)
          IN  IF v = {} THEN TRUE ELSE PrintT("REJ " \o ToJson([tid |-> r.tid, clauses |-> v]))
       /\ i' = i + 1
    \/ /\ i = NRec + 1 /\ PrintT("ACC " \o ToString(NRec)) /\ i' = i + 1
TraceSpec == TraceInit /\ [][TraceNext]_i
TraceAccepted == TLCGet("stats").diameter = NRec + 2
=============================================================================
