---------------------------- MODULE Trace_ElimTree ----------------------------
(***************************************************************************)
(* Trace validation for C20: each record is one assertion set (generated   *)
(* by TLC, ElimTreeMC) and one alternative winner run through the real     *)
(* buildRemainingTreeAsLists (directly and via parseAssertions on the JSON *)
(* log form) and treeListToTuple; the flattened tree must be the           *)
(* specification's Tree, and the statement of C20 is evaluated on it.      *)
(***************************************************************************)
EXTENDS ElimTree, Json, IOUtils, TLCExt, SequencesExt

TraceRecs == ndJsonDeserialize(IOEnv.TRACE_FILE)
NRec == Len(TraceRecs)
VARIABLE i

AtomOf(x) == [kind |-> x.kind, w |-> x.w, l |-> x.l, elim |-> ToSet(x.elim)]
\* a listed assertion with its confirmation status (a redundant list may hold the same assertion twice, confirmed
\* and not): tags denote listed assertions, so they are compared together with that status
AtomP(x) == [kind |-> x.kind, w |-> x.w, l |-> x.l, elim |-> ToSet(x.elim), proved |-> x.proved]
Strip(a) == [kind |-> a.kind, w |-> a.w, l |-> a.l, elim |-> a.elim]
NodeOf(x) == [path |-> x.path, pruned |-> x.pruned, neb |-> {AtomP(x.neb[k]) : k \in 1..Len(x.neb)},
              irv |-> {AtomP(x.irv[k]) : k \in 1..Len(x.irv)}]

Clauses(r) ==
    LET C == ToSet(r.cands)
        A == {AtomOf(r.atoms[k]) : k \in 1..Len(r.atoms)}
        AP == {AtomP(r.atoms[k]) : k \in 1..Len(r.atoms)}
        got == {NodeOf(r.out.nodes[k]) : k \in 1..Len(r.out.nodes)}
        want == Tree(A, C, r.alt)
        unpr == {Reverse(n.path) : n \in {m \in got : ~m.pruned}}
    IN  (IF {[path |-> n.path, pruned |-> n.pruned] : n \in got} = {[path |-> n.path, pruned |-> n.pruned] : n \in want}
            /\ Cardinality(got) = Len(r.out.nodes) THEN {} ELSE {"shape"})
        \cup (IF \A n \in got : \A m \in want : n.path = m.path =>
                    (n.neb = {a \in AP : Strip(a) \in m.neb} /\ n.irv = {a \in AP : Strip(a) \in m.irv}) THEN {} ELSE {"tags"})
        \* the statement: an unpruned leaf iff some order ending in alt is contradicted by no assertion
        \cup (IF (unpr # {}) = (Uncontradicted(A, C, r.alt) # {}) THEN {} ELSE {"leaf_iff"})
        \cup (IF unpr = Uncontradicted(A, C, r.alt) THEN {} ELSE {"leaf_orders"})
        \cup (IF r.out.marker_count = Cardinality(unpr) THEN {} ELSE {"marker"})
        \cup (IF r.out.parsed_same THEN {} ELSE {"parse"})

Verdict(r) == IF "exc" \in DOMAIN r THEN {"exc:" \o r.exc.type \o "@" \o r.exc.site} ELSE Clauses(r)

TraceInit == i = 1
TraceNext ==
    \/ /\ i <= NRec
       /\ LET r == TraceRecs[i]  v == Verdict(r)
          IN  IF v = {} THEN TRUE ELSE PrintT("REJ " \o ToJson([tid |-> r.tid, clauses |-> v]))
       /\ i' = i + 1
    \/ /\ i = NRec + 1 /\ PrintT("ACC " \o ToString(NRec)) /\ i' = i + 1
TraceSpec == TraceInit /\ [][TraceNext]_i
TraceAccepted == TLCGet("stats").diameter = NRec + 2
=============================================================================
