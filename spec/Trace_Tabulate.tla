---------------------------- MODULE Trace_Tabulate ----------------------------
(***************************************************************************)
(* Trace validation of the tabulation functions (an extension beyond the   *)
(* listed properties: rejected records are reported as observations).      *)
(* A record holds one list of cards (each: contest -> list of marked       *)
(* candidates), the options of from_cvr_list / check_cards, and what the   *)
(* real functions returned.                                                *)
(***************************************************************************)
EXTENDS Tabulate, Json, IOUtils, TLCExt, SequencesExt

TraceRecs == ndJsonDeserialize(IOEnv.TRACE_FILE)
NRec == Len(TraceRecs)
VARIABLE i

CardOf(x) == [con \in DOMAIN x |-> ToSet(x[con])]
Cards(r) == [k \in 1..Len(r.cards) |-> CardOf(r.cards[k])]
Get(f, k) == IF k \in DOMAIN f THEN f[k] ELSE 0

Clauses(r) ==
    LET cs == Cards(r)
        o == r.out
        cons == ToSet(r.contests)
        cands == ToSet(r.cands)
    IN  (IF \A con \in cons : Get(o.cards_contests, con) = CardsWith(cs, con) THEN {} ELSE {"tab:cards_contests"})
        \cup (IF \A con \in cons : \A c \in cands :
                    (IF con \in DOMAIN o.votes THEN Get(o.votes[con], c) ELSE 0) = Votes(cs, con, c) THEN {} ELSE {"tab:votes"})
        \cup (IF Len(o.styles) = Cardinality(Styles(cs)) /\
                 \A k \in 1..Len(o.styles) : o.styles[k].count = StyleCount(cs, ToSet(o.styles[k].style)) /\ o.styles[k].count > 0
              THEN {} ELSE {"tab:styles"})
        \* contests made from the tabulation
        \cup (IF \A con \in Contests(cs) :
                    con \in DOMAIN o.made =>
                        /\ o.made[con].winner \in Leaders(cs, con, ToSet(o.made[con].candidates))
                        /\ o.made[con].cards = BoundFor(cs, con, r.use_style, r.max_cards)
              THEN {} ELSE {"tab:from_cvr_list"})
        \* check_cards with the given bounds
        \cup (IF \A con \in DOMAIN r.bounds :
                    /\ o.check.refused = (~r.force /\ \E c2 \in DOMAIN r.bounds : TooMany(cs, c2, r.bounds[c2]))
                    /\ (~o.check.refused => o.check.bounds[con] = BoundAfter(cs, con, r.bounds[con], r.force))
              THEN {} ELSE {"tab:check_cards"})

Verdict(r) == IF "exc" \in DOMAIN r THEN {"exc:" \o r.exc.type \o "@" \o r.exc.site} ELSE Clauses(r)

TraceInit == i = 1
TraceNext ==
    \/ /\ i <= NRec
       /\ LET r == TraceRecs[i]  v == Verdict(r)
          IN  IF v = {} THEN TRUE ELSE PrintT("REJ " \o ToJson([tid |-> r.tid, clauses |-> v]))
       /\ i' = i + 1
    \/ /\ i = NRec + 1 /\ PrintT("ACC " \o ToString(NRec)) /\ i' = i + 1
TraceSpec == TraceInit /\ [][TraceNext]_i
TraceAccepted == TLCGet("stats").diameter = NRec + 2
=============================================================================
