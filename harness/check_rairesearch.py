"""The RAIRE branch-and-bound step by step (spec/RaireSearch.tla, RaireSearchMC.tla, Trace_RaireSearch.tla): an
extension beyond the listed properties, run as part of C15's check.  The model-checking half decides that the
specified search refines Raire.tla; the conformance half replays real searches against it event by event.  What the
conformance half finds is reported as observations, never as violations (DESIGN.md 9.7): no listed property says
HOW the search must proceed, only what it must return - and that is C04 / C15's own trace validation."""
import contextlib
import itertools
import warnings

from . import core
from .core import rs

ACTIONS = ["A_InitNode", "A_StopLeaves", "A_LoopReplace", "A_LoopFreeze", "A_BeginDive", "A_BeginExpand", "A_DiveStep",
           "A_PostReplace", "A_PostFreeze", "A_ExpandChild"]
INVS = ["NodeSound", "Covers", "ClosedBelowBound", "BoundIsLower", "DoneRight", "StepsBounded"]


def mc(cands, maxb, fns, gaps, hint_kinds, extras, workers=16, timeout=3000, cases=None):
    env = None
    extra_files = ()
    if cases is not None:
        import json
        wd = core.workdir("rs-cases")
        path = wd + "/cases.ndjson"
        with open(path, "w") as fh:
            for c in cases:
                fh.write(json.dumps(c, separators=(",", ":")) + "\n")
        env = {"RS_CASES": path}
    cfg = f"""CONSTANTS
  Cands = {{{", ".join('"%s"' % c for c in cands)}}}
  MaxBallots = {maxb}
  Fns = {{{", ".join('"%s"' % f for f in fns)}}}
  Gaps = {{{", ".join(str(g) for g in gaps)}}}
  MaxSteps = 400
  HintKinds = {hint_kinds}
  Extras = {{{", ".join(str(e) for e in extras)}}}
INIT {"Init" if cases is None else "InitFile"}
NEXT Next
CHECK_DEADLOCK FALSE
""" + "".join(f"INVARIANT {i}\n" for i in INVS)
    try:
        return core.run_tlc("RaireSearchMC", cfg, workers=workers, timeout=timeout, heap="8g", coverage=True, env=env)
    finally:
        if cases is not None:
            import shutil
            shutil.rmtree(wd, ignore_errors=True)


# ----------------------------------------------------------------------------- logging a real search
class StepLog:
    def __init__(self):
        self.events = []
        self.pending = None      # node evaluated by find_best_audit, not yet placed
        self.depth = 0           # inside manage_node / replace_descendents
        self.frontier = None

    def fr(self, frontier):
        self.frontier = frontier
        return [{"tail": [str(c) for c in n.tail], "est": rs(n.estimate), "exp": bool(n.expandable)} for n in frontier.nodes]

    def node_event(self, node, frontier, lb):
        from shangrla.raire.raire_utils import NEBAssertion
        a = node.best_assertion
        if a is None:
            asn = {"kind": "none", "w": "", "l": "", "elim": []}
        else:
            neb = isinstance(a, NEBAssertion)
            asn = {"kind": "NEB" if neb else "NEN", "w": str(a.winner), "l": str(a.loser),
                   "elim": [] if neb else [str(c) for c in a.eliminated]}
        self.events.append({"act": "node", "tail": [str(c) for c in node.tail], "est": rs(node.estimate), "asn": asn,
                            "exp": bool(node.expandable),
                            "anc": [str(c) for c in node.best_ancestor.tail] if node.best_ancestor is not None else [],
                            "lb": lb, "fr": self.fr(frontier) if frontier is not None else []})


@contextlib.contextmanager
def logged_search(log):
    """wrap the search's helper functions for one call (nothing in the repository is touched on disk)"""
    import shangrla.raire.raire as R
    import shangrla.raire.raire_utils as U
    o_fba_u, o_mn_u, o_fba_r, o_mn_r = U.find_best_audit, U.manage_node, R.find_best_audit, R.manage_node
    o_ins, o_rep = U.RaireFrontier.insert_node, U.RaireFrontier.replace_descendents

    def fba(orig):
        def w(contest, ballots, nebs, node, asn_func, *a, **k):
            r = orig(contest, ballots, nebs, node, asn_func, *a, **k)
            log.pending = node
            return r
        return w

    def mn(orig):
        def w(newn, frontier, lowerbound, *a, **k):
            log.depth += 1
            try:
                res = orig(newn, frontier, lowerbound, *a, **k)
            finally:
                log.depth -= 1
            if log.depth == 0:
                log.pending = None
                log.node_event(newn, frontier, rs(res[1]))
            return res
        return w

    def ins(self, node):
        log.depth += 1
        try:
            o_ins(self, node)
        finally:
            log.depth -= 1
        if log.depth == 0:
            if node is log.pending:
                log.pending = None
                log.node_event(node, self, "")
            else:
                log.events.append({"act": "freeze", "tail": [str(c) for c in node.tail], "fr": log.fr(self)})

    def rep(self, node, *a, **k):
        log.depth += 1
        try:
            o_rep(self, node, *a, **k)
        finally:
            log.depth -= 1
        if log.depth == 0:
            log.events.append({"act": "replace", "tail": [str(c) for c in node.tail], "fr": log.fr(self)})

    U.find_best_audit, R.find_best_audit = fba(o_fba_u), fba(o_fba_r)
    U.manage_node, R.manage_node = mn(o_mn_u), mn(o_mn_r)
    U.RaireFrontier.insert_node, U.RaireFrontier.replace_descendents = ins, rep
    try:
        yield
    finally:
        U.find_best_audit, U.manage_node, R.find_best_audit, R.manage_node = o_fba_u, o_mn_u, o_fba_r, o_mn_r
        U.RaireFrontier.insert_node, U.RaireFrontier.replace_descendents = o_ins, o_rep


def float_order_is_exact(cands, profile, total, fn):
    """the code orders assertions by float difficulties, the specification by exact ones: keep a case only if the two
    orders coincide on every assertion the search can meet (always so for cp; bp can round two equal rationals apart)"""
    if fn == "cp":
        return True
    from fractions import Fraction
    from shangrla.raire import sample_estimator as se
    seen = {}
    n = len(profile)
    for tw in range(0, n + 1):
        for tl in range(0, tw):
            ex = Fraction((tw + tl) * total, (tw - tl) ** 2)
            fl = se.bp_estimate(tw, tl, total - tw - tl, total)
            if seen.setdefault(ex, fl) != fl:
                return False
    vals = sorted(seen.items())
    return all(a[1] < b[1] for a, b in zip(vals, vals[1:]))


def run_steps(tid, cands, profile, winner, fn, hint, total):
    from shangrla.raire.raire import compute_raire_assertions
    from shangrla.raire.raire_utils import Contest as RC, NEBAssertion
    from shangrla.raire import sample_estimator as se
    rec = {"tid": tid, "cands": list(cands), "profile": [list(b) for b in profile], "winner": winner, "fn": fn,
           "total": total, "hint": list(hint or []), "agap": "0/1"}
    contest = RC("con", list(cands), winner, total, order=list(hint or []))
    cvrs = {f"b{k}": {"con": {c: j for j, c in enumerate(b)}} for k, b in enumerate(profile)}
    log = StepLog()
    try:
        with warnings.catch_warnings():
            warnings.simplefilter("ignore")
            with logged_search(log):
                res = core.with_time_limit(5, compute_raire_assertions, contest, cvrs, winner,
                                           se.cp_estimate if fn == "cp" else se.bp_estimate, False)
        out = []
        for a in res:
            neb = isinstance(a, NEBAssertion)
            out.append({"kind": "NEB" if neb else "NEN", "w": str(a.winner), "l": str(a.loser),
                        "elim": [] if neb else [str(c) for c in a.eliminated]})
        # a search that found the audit impossible may have left its frontier mid-step: only the verdict is compared
        log.events.append({"act": "done", "out": "ok" if res else "notposs", "result": out,
                           "fr": log.fr(log.frontier) if (res and log.frontier is not None) else []})
        rec["events"] = log.events
    except core.CaseTimeout:
        rec["exc"] = {"type": "Timeout", "site": "raire.py:compute_raire_assertions"}
    except Exception as ex:
        rec["exc"] = {"type": type(ex).__name__, "site": core.exc_site(ex)}
    return rec


def gen_records(tier, rng):
    from .check_raire import all_rankings, irv_winner
    recs = []
    n = 250 if tier == "quick" else 2500
    ranks_by = {}
    for j in range(n):
        nc = rng.choice([3, 4, 4, 5])
        cands = (["A", "B", "C", "D", "E"] if j % 2 else ["1", "2", "12", "3", "21"])[:nc]
        ranks = ranks_by.setdefault((nc, cands[0]), all_rankings(cands))
        prof = [rng.choice(ranks) for _ in range(rng.randint(2, 12 if nc < 5 else 8))]
        w = irv_winner(cands, prof) if j % 5 else rng.choice(cands)
        hint = None if j % 3 == 0 else rng.sample(cands, nc)
        tot = len(prof) + (0 if j % 3 else rng.choice([1, 2]))
        fn = "cp" if j % 4 else "bp"
        if not float_order_is_exact(cands, prof, tot, fn):
            fn = "cp"
        order = rng.sample(cands, nc) if j % 2 else list(cands)          # the contest lists its candidates in any order
        recs.append(run_steps(f"st{j}", order, prof, w, fn, hint, tot))
    return recs


def steps_part(rep, tier, rng):
    # (S) the specified search refines the declarative specification
    recs = gen_records(tier, rng)
    runs = [(["A", "B", "C"], 2 if tier == "quick" else 3, ["cp", "bp"], [0], 3, [0, 1], None)]
    if tier == "thorough":
        runs.append((["A", "B", "C", "D"], 2, ["cp"], [0], 1, [0], None))
        runs.append((["A", "B", "C"], 2, ["cp"], [0, 1, 3], 3, [0], None))       # a positive gap: within the gap of the optimum
    # the inputs of the searches whose real runs are validated below (chosen by position, not by what the code did)
    pool = [r for r in recs if len(r["cands"]) <= 4][: 80 if tier == "quick" else 600]
    pool += [r for r in recs if len(r["cands"]) == 5][: 12 if tier == "quick" else 100]
    cases = [{k: r[k] for k in ("cands", "profile", "winner", "fn", "total", "hint", "agap")} for r in pool]
    runs.append((["A", "B", "C"], 1, ["cp"], [0], 1, [0], cases))
    seen = {}
    for cands, maxb, fns, gaps, hk, extras, cs in runs:
        res = mc(cands, maxb, fns, gaps, hk, extras, cases=cs)
        rep.add_tlc(f"MC RaireSearchMC {len(cands)} candidates" if cs is None else f"MC RaireSearchMC on {len(cs)} listed searches",
                    res, consts={"Cands": cands, "MaxBallots": maxb, "Fns": fns, "Gaps": gaps} if cs is None else None)
        if res.error:
            raise core.MachineryError(res.error[:2000])
        if res.violated:
            raise core.MachineryError(f"RaireSearchMC: the specified search violates {res.violated}: {res.cex[:1500]}")
        for a in ACTIONS:
            seen[a] = seen.get(a, 0) + res.coverage.get(a, (0, 0))[1]
    # (LoopReplace, LoopFreeze, PostReplace need larger profiles and are met only on the listed searches; counted, not required)
    never = [a for a in ACTIONS if not seen.get(a) and a not in ("A_LoopReplace", "A_LoopFreeze", "A_PostReplace")]
    if never:
        raise core.MachineryError(f"RaireSearchMC: actions never taken: {never}")
    rep.cov["rairesearch_actions"] = seen
    # (B) real searches, event by event
    # the binding is demonstrated on every run: a copy of one recorded search with the frontier of one event reversed
    # must be rejected (a trace specification that accepts it constrains nothing)
    import copy
    canary = None
    for r in recs:
        evs = [e for e in r.get("events", []) if e["act"] == "node" and len(e["fr"]) >= 2 and e["fr"][0]["tail"] != e["fr"][-1]["tail"]]
        if evs:
            canary = copy.deepcopy(r)
            canary["tid"] = "canary"
            ev = [e for e in canary["events"] if e["act"] == "node" and len(e["fr"]) >= 2 and e["fr"][0]["tail"] != e["fr"][-1]["tail"]][0]
            ev["fr"].reverse()
            break
    rejects, stats = core.validate_traces("Trace_RaireSearch", recs + ([canary] if canary else []), cfg_consts="", timeout=3000)
    if canary is not None and "canary" not in rejects:
        raise core.MachineryError("Trace_RaireSearch accepted a recorded search whose frontier had been reversed")
    rejects.pop("canary", None)
    rep.cov["rairesearch_canary_rejected"] = canary is not None
    rep.add_trace_stats("Trace_RaireSearch", stats)
    nev = sum(len(r.get("events", [])) for r in recs)
    rep.cov["rairesearch_steps"] = {"searches": len(recs), "events": nev, "rejected": len(rejects)}
    for tid, clauses in rejects.items():
        for cl in clauses:
            rep.observation("raire-search-steps", cl, f"the search departs from RaireSearch.tla at clause {cl} (e.g. record {tid})")
    for r in recs:
        rep.clause_count("search-steps", r["tid"] not in rejects)
    rep.assumptions.append("RaireSearch.tla (extension): the search's steps, model-checked to refine Raire.tla on 3 candidates "
                           "x <=2/3 ballots and 4 candidates x <=1/2 ballots; real searches on 3-5 candidates validated event "
                           "by event (observations only)")
