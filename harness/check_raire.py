"""C04, C15 (RAIRE assertion search) and C14 (one interpretation of ranked ballots):
spec/Raire.tla, RaireMC.tla, Trace_Raire.tla."""
import fnmatch
import itertools
import os
import random
import tempfile
import warnings

from . import core
from .core import Report, rs

_LAST = {}
CLAUSES = {
    "C04": ["true", "tally", "sufficient", "empty:*", "malformed", "exc:*"],
    "C15": ["optimal", "difficulty", "exc:*"],
    "C14": ["reapply", "reapply:*", "vote:*", "reader:*", "exc:*"],
}
MC_INV = {"C04": ["OnlyTheWinner", "NenFullSetIsFirstPref"], "C15": ["MinMaxDuality", "DifficultyDefined"],
          "C14": ["NenFullSetIsFirstPref"]}


def mc(cands, maxb, invariants, emit=True, workers=16):
    cfg = f"""CONSTANTS
  Cands = {{{", ".join('"%s"' % c for c in cands)}}}
  MaxBallots = {maxb}
  Fns = {{"cp", "bp"}}
INIT Init
NEXT Next
CHECK_DEADLOCK FALSE
""" + "".join(f"INVARIANT {i}\n" for i in invariants) + ("INVARIANT Emit\n" if emit else "")
    return core.run_tlc("RaireMC", cfg, workers=workers, timeout=3400, heap="8g", coverage=True)


class NoAssertionInResult(Exception):
    """the returned list holds something that is not an assertion"""


def run_search(tid, cands, profile, winner, fn, hint, total=None, with_means=False):
    from shangrla.raire.raire import compute_raire_assertions
    from shangrla.raire.raire_utils import Contest as RC, NEBAssertion, NENAssertion
    from shangrla.raire import sample_estimator as se
    total = len(profile) if total is None else total
    rec = {"kind": "search", "tid": tid, "cands": cands, "winner": winner, "fn": fn, "hint": hint or [],
           "profile": profile, "total": total}
    # the reported winner is the function's argument; the Contest object's own winner field may say something else
    ckey = (tuple(cands), tuple(map(tuple, profile)), total, tuple(hint or []))
    if _LAST.get("key") != ckey:
        _LAST["key"] = ckey
        _LAST["contest"] = RC("con", list(cands), cands[(len(profile) + total) % len(cands)], total, order=list(hint or []))
    contest = _LAST["contest"]        # the same Contest object serves consecutive searches on the same election
    # a ballot is the ranks, not the order of the keys: the loaders store candidates in the order the contest declares them
    def ballot(k, b):
        d = {c: j for j, c in enumerate(b)}
        return dict(sorted(d.items(), key=lambda kv: cands.index(kv[0]))) if (k + len(profile)) % 2 else d
    cvrs = {f"b{k}": {"con": ballot(k, b)} for k, b in enumerate(profile)}
    # cards carry other contests too - over the same candidate identifiers - and some cards carry only those
    nextra = (len(profile) * 7 + total) % 4
    other = list(reversed(cands))
    for k in range(len(profile)):
        if (k + len(cands) + total) % 3 == 0:
            cvrs[f"b{k}"]["zz"] = {c: j for j, c in enumerate(other[: 1 + k % len(other)])}
    for k in range(nextra):
        cvrs[f"x{k}"] = {"zz": {c: j for j, c in enumerate(other)}}
    f = se.cp_estimate if fn == "cp" else se.bp_estimate
    try:
        with warnings.catch_warnings():
            warnings.simplefilter("ignore")
            # (one search in eight keeps the search log, into a buffer: the logged path is the same search)
            if (len(profile) + total + len(tid)) % 8 == 0:
                import io
                res = core.with_time_limit(5, compute_raire_assertions, contest, cvrs, winner, f, True, io.StringIO())
            else:
                res = core.with_time_limit(5, compute_raire_assertions, contest, cvrs, winner, f, False)
        out = []
        if any(a is None for a in res):
            raise NoAssertionInResult(f"result {res!r}")
        for a in res:
            kind = "NEB" if isinstance(a, NEBAssertion) else "NEN"
            out.append({"kind": kind, "w": a.winner, "l": a.loser,
                        "elim": list(a.eliminated) if kind == "NEN" else [],
                        "tw": int(a.votes_for_winner), "tl": int(a.votes_for_loser), "diff": rs(a.difficulty),
                        "re_tw": int(sum(a.is_vote_for_winner(cv) for cv in cvrs.values())),
                        "re_tl": int(sum(a.is_vote_for_loser(cv) for cv in cvrs.values()))})
        rec["result"] = out
        # the audit's side of each returned assertion: its assorter's mean over all the cards (those lacking the
        # contest are not among the cards under audit) must say what the generator's tallies say
        if out and with_means:
            from shangrla.core.Audit import Assertion, Audit, Contest as AC, CVR
            from shangrla.core.NonnegMean import NonnegMean
            acon = AC.from_dict({"id": "con", "name": "con", "risk_limit": 0.05, "cards": len(profile), "choice_function": "IRV",
                                 "n_winners": 1, "candidates": list(cands), "winner": [winner],
                                 "audit_type": Audit.AUDIT_TYPE.CARD_COMPARISON, "test": NonnegMean.alpha_mart,
                                 "estim": NonnegMean.fixed_alternative_mean, "use_style": True})
            js = [{"winner": o["w"], "loser": o["l"], "assertion_type": ("WINNER_ONLY" if o["kind"] == "NEB" else "IRV_ELIMINATION"),
                   "already_eliminated": ("" if o["kind"] == "NEB" else list(o["elim"]))} for o in out]
            cvr_list = [CVR(id=i_, votes={cn: {c: r + 1 for c, r in v.items()} for cn, v in cv.items()}) for i_, cv in cvrs.items()]
            for o, j1 in zip(out, js):
                a1 = next(iter(Assertion.make_assertions_from_json(contest=acon, candidates=list(cands), json_assertions=[j1],
                                                                   test=NonnegMean.alpha_mart,
                                                                   estim=NonnegMean.fixed_alternative_mean).values()))
                o["mean"] = rs(a1.assorter.mean(cvr_list, use_style=True))
    except core.CaseTimeout:
        rec["exc"] = {"type": "Timeout", "site": "raire.py:compute_raire_assertions"}
    except Exception as ex:
        rec["exc"] = {"type": type(ex).__name__, "site": core.exc_site(ex)}
    return rec


def irv_winner(cands, profile):
    """a winner of the instant-runoff count (ties broken by list position) - used only to choose interesting cases"""
    standing = list(cands)
    while len(standing) > 1:
        tally = {c: 0 for c in standing}
        for b in profile:
            for c in b:
                if c in tally:
                    tally[c] += 1
                    break
        standing.remove(min(standing, key=lambda c: tally[c]))
    return standing[0]


def all_rankings(cands):
    out = [[]]
    for k in range(1, len(cands) + 1):
        out += [list(p) for p in itertools.permutations(cands, k)]
    return out


def vote_records(cands):
    """every ranking x every NEB / NEN assertion: generator verdicts and the audit's assorter"""
    from shangrla.core.Audit import Assertion, Audit, Contest, CVR
    from shangrla.core.NonnegMean import NonnegMean
    from shangrla.raire.raire_utils import NEBAssertion, NENAssertion
    con = Contest.from_dict({"id": "con", "name": "con", "risk_limit": 0.05, "cards": 100, "choice_function": "IRV",
                             "n_winners": 1, "candidates": list(cands), "winner": [cands[0]],
                             "audit_type": Audit.AUDIT_TYPE.CARD_COMPARISON, "test": NonnegMean.alpha_mart,
                             "use_style": True})
    recs = []
    k = 0
    asns = []
    for w in cands:
        for l in cands:
            if w == l:
                continue
            asns.append(("NEB", w, l, []))
            rest = [c for c in cands if c not in (w, l)]
            for r in range(len(rest) + 1):
                for E in itertools.combinations(rest, r):
                    asns.append(("NEN", w, l, list(E)))
    # the audit builds all assertions of a contest in one call: the k-th assertion of the JSON list is the k-th entry
    def js_of(kind, w, l, E):
        return ({"winner": w, "loser": l, "assertion_type": "WINNER_ONLY", "already_eliminated": ""} if kind == "NEB" else
                {"winner": w, "loser": l, "assertion_type": "IRV_ELIMINATION", "already_eliminated": list(E)})
    together = None
    try:
        d = Assertion.make_assertions_from_json(contest=con, candidates=list(cands),
                                                json_assertions=[js_of(*a) for a in asns], test=NonnegMean.alpha_mart,
                                                estim=NonnegMean.fixed_alternative_mean)
        if len(d) == len(asns):
            together = list(d.values())
        else:
            recs.append({"kind": "reader", "tid": "vfamily", "exc": {"type": f"AssertionsLost{len(asns) - len(d)}",
                                                                     "site": "Audit.py:make_assertions_from_json"}})
    except Exception as ex:
        recs.append({"kind": "reader", "tid": "vfamily", "exc": {"type": type(ex).__name__, "site": core.exc_site(ex)}})
    for ai, (kind, w, l, E) in enumerate(asns):
        ra = NEBAssertion("con", w, l) if kind == "NEB" else NENAssertion("con", w, l, list(E))
        try:
            if together is not None and ai % 2 == 0:
                aa = together[ai]
            else:
                aa = next(iter(Assertion.make_assertions_from_json(contest=con, candidates=list(cands),
                                                                   json_assertions=[js_of(kind, w, l, E)],
                                                                   test=NonnegMean.alpha_mart,
                                                                   estim=NonnegMean.fixed_alternative_mean).values()))
        except Exception as ex:
            recs.append({"kind": "reader", "tid": f"v{k}", "exc": {"type": type(ex).__name__, "site": core.exc_site(ex)}})
            k += 1
            continue
        for b in all_rankings(cands):
            rec = {"kind": "vote", "tid": f"v{k}", "asn": {"kind": kind, "w": w, "l": l, "elim": E}, "ballot": b}
            k += 1
            try:
                rcv = {"con": {c: j for j, c in enumerate(b)}}
                if k % 2:      # keys in the contest's declared order (as the loaders store them), ranks unchanged
                    rcv = {"con": dict(sorted(rcv["con"].items(), key=lambda kv: cands.index(kv[0])))}
                rec["raire_w"] = int(ra.is_vote_for_winner(rcv))
                rec["raire_l"] = int(ra.is_vote_for_loser(rcv))
                # (the record's keys in any insertion order: a ranking is the values, not the order of the keys)
                cv = CVR(id="x", votes={"con": dict(sorted(((c, j + 1) for j, c in enumerate(b)),
                                                           key=lambda kv: (sum(map(ord, str(kv[0]))) * 31 + kv[1] * 7 + len(b)) % 5))})
                rec["assort"] = rs(aa.assorter.assort(cv))
            except Exception as ex:
                rec = {"kind": "reader", "tid": rec["tid"], "exc": {"type": type(ex).__name__, "site": core.exc_site(ex)}}
            recs.append(rec)
    return recs


def reader_records(rng, n, repeats=False):
    """RAIRE-format files (1-2 contests, repeated ballot ids, rankings of every length) through both readers;
    repeats: a row may list a candidate twice (C18 only: its rank is then one of its listing positions, the ranks
    of the candidates listed once are their positions)"""
    from shangrla.core.Audit import CVR
    from shangrla.raire.raire_utils import load_contests_from_raire
    recs = []
    for k in range(n):
        # (a file may declare ten contests or more: the count is a number, not a digit)
        ncon = rng.choice([1, 2]) if k % 12 else rng.choice([10, 11, 12])
        cons = {}
        # identifiers of contests, ballots and candidates are small numbers in real files and may coincide
        small_ids = k % 3 == 0
        for ci in range(ncon):
            cid = str(1 + ci) if small_ids else str(331 + ci)
            nc = rng.randint(2, 4)
            cons[cid] = [str(1 + j) for j in range(nc)] if small_ids else [str(10 * (ci + 1) + j) for j in range(nc)]
        rows = []
        nb = rng.randint(1, 6)
        for bi in range(nb):
            bid = str(2 + bi) if small_ids else f"99{bi}"
            for cid, cands in cons.items():
                if ncon == 1 or rng.random() < 0.7:
                    L = rng.randint(0, len(cands))          # a row may rank nobody
                    prefs = rng.sample(cands, L)
                    if repeats and L >= 1 and rng.random() < 0.3:
                        prefs.insert(rng.randint(0, L), rng.choice(prefs))
                    rows.append({"cid": cid, "bid": bid, "prefs": prefs})
        if not rows:
            continue
        rng.shuffle(rows)
        # the same (contest, ballot id) may be listed more than once: the later line replaces the earlier one
        dup = []
        if rng.random() < 0.4:
            r0 = rng.choice(rows)
            cands0 = cons[r0["cid"]]
            dup = [{"cid": r0["cid"], "bid": r0["bid"], "prefs": rng.sample(cands0, rng.randint(1, len(cands0)))}]
        file_rows = dup + rows        # the duplicate comes first, so the rows listed in `rows` are the effective ones
        lines = [str(ncon)]
        for cid, cands in cons.items():
            lines.append(",".join(["Contest", cid, str(len(cands))] + cands + ["winner", cands[0]]))
        for r in file_rows:
            lines.append(",".join([r["cid"], r["bid"]] + r["prefs"]))
        rec = {"kind": "reader", "tid": f"rd{k}", "rows": rows, "file": lines}
        fd, path = tempfile.mkstemp(suffix=".raire")
        try:
            with os.fdopen(fd, "w") as fh:
                fh.write("\n".join(lines) + "\n")
            cvrs, n_read, n_unique = CVR.from_raire_file(path)
            contests, rcvrs = load_contests_from_raire(path)
            byid = {c.id: c for c in cvrs}
            rec["n_cards"], rec["n_read"] = int(n_unique), int(n_read)
            cr, rr = [], []
            for r in rows:
                v = byid[r["bid"]].votes[r["cid"]]
                ranked = sorted(v.items(), key=lambda kv: kv[1])
                cr.append({"ranking": [c for c, _ in ranked], "ranks": [int(x) for _, x in ranked]})
                v2 = rcvrs[r["bid"]][r["cid"]]
                ranked2 = sorted(v2.items(), key=lambda kv: kv[1])
                rr.append({"ranking": [c for c, _ in ranked2], "ranks": [int(x) for _, x in ranked2]})
            rec["cvr_reader"], rec["raire_reader"] = cr, rr
        except Exception as ex:
            rec = {"kind": "reader", "tid": rec["tid"], "exc": {"type": type(ex).__name__, "site": core.exc_site(ex)},
                   "file": lines}
        finally:
            os.unlink(path)
        recs.append(rec)
    return recs


def belongs(pid, clause):
    return any(fnmatch.fnmatchcase(clause, p) for p in CLAUSES[pid])


def run(pid, tier):
    rep = Report(pid, tier)
    core.import_repo()
    rng = random.Random(core.seed() * 2971 + 41)
    cands3 = ["A", "B", "C"]
    maxb = 4 if tier == "quick" else 5
    res = mc(cands3, maxb, MC_INV[pid])
    rep.add_tlc("MC RaireMC", res, consts={"Cands": cands3, "MaxBallots": maxb})
    if res.error:
        raise core.MachineryError(res.error[:2000])
    if res.violated:
        rep.violation("Raire.tla", f"mc:{res.violated}", f"TLC: {res.violated} violated", {"cex": res.cex[:3000]})
    profiles = core.beh_lines(res)
    if not profiles:
        raise core.MachineryError("no profiles generated")
    rep.cov["exhaustive"] = True
    rep.cov["profiles_generated"] = len(profiles)
    recs = []
    k = 0
    perms3 = [list(p) for p in itertools.permutations(cands3)]
    if pid in ("C04", "C15"):
        frac = 0.5 if tier == "quick" else 1.0
        for prof in profiles:
            if len(prof) >= 4 and rng.random() > frac:
                continue
            for w in cands3:
                for fn in ("cp", "bp"):
                    hints = [None, rng.choice(perms3)] if tier == "quick" else [None] + perms3
                    if tier == "quick" and rng.random() < 0.5:
                        hints = hints[:1]
                    for h in hints:
                        # auditable ballots beyond the CVRs (informal ballots count in the total)
                        tot = len(prof) + (0 if k % 3 else rng.choice([1, len(prof) // 2 + 1]))
                        recs.append(run_search(f"s{k}", cands3, prof, w, fn, h, total=tot))
                        k += 1
    else:   # C14: re-application of every returned assertion
        for prof in profiles:
            if rng.random() > (0.3 if tier == "quick" else 1.0):
                continue
            w = rng.choice(cands3)
            recs.append(run_search(f"s{k}", cands3, prof, w, rng.choice(["cp", "bp"]), None, with_means=True))
            k += 1
    # two candidates (the smallest contest the statement covers): every multiset of up to 4 partial rankings,
    # each reported winner, both difficulty functions
    if pid in ("C04", "C15"):
        for cands2 in (["A", "B"], ["1", "12"]):
            ranks2 = all_rankings(cands2)
            for n2 in range(1, 5):
                for prof in itertools.combinations_with_replacement(ranks2, n2):
                    for w in cands2:
                        for fn in ("cp", "bp"):
                            recs.append(run_search(f"two{k}", cands2, [list(b) for b in prof], w, fn, None))
                            k += 1
    # beyond the exhaustive bound: 4 and 5 candidates, larger profiles (the specification still decides each case)
    nbig = ({"C04": 2000, "C15": 1500, "C14": 150}[pid] if tier == "quick" else 8000)
    ranks_by = {}
    for j in range(nbig):
        nc = rng.choice([4, 4, 4, 5]) if j % 5 else 3
        # identifiers as in real exports: numeric strings, some of them concatenations of others ("1","2","12")
        cands = (["A", "B", "C", "D", "E"] if j % 2 else ["1", "2", "12", "3", "21"])[:nc]
        ranks = ranks_by.setdefault((nc, cands[0]), all_rankings(cands))
        prof = [rng.choice(ranks) for _ in range(rng.randint(3, 11 if nc < 5 else 6))]
        # most cases: the true winner is reported (an audit is possible), with an elimination-order hint
        w = irv_winner(cands, prof) if j % 4 else rng.choice(cands)
        hint = None if j % 4 == 0 else rng.sample(cands, nc)
        tot = len(prof) + (0 if j % 3 else rng.choice([1, 2, len(prof) // 2 + 1]))
        fns = rng.sample(["cp", "bp"], 2) if pid in ("C15", "C04") and j % 2 == 0 else [rng.choice(["cp", "bp"])]
        for fi, fn in enumerate(fns):
            recs.append(run_search(f"b{j}.{fi}", cands, prof, w, fn, hint, total=tot, with_means=(pid == "C14")))
    if pid == "C15":       # five candidates, no hint: the expansion loop's own best-ancestor bookkeeping only matters here
        cands = ["A", "B", "C", "D", "E"]
        ranks = ranks_by.setdefault(5, all_rankings(cands))
        for j in range(1200 if tier == "quick" else 6000):
            prof = [rng.choice(ranks) for _ in range(rng.randint(5, 22))]
            w = irv_winner(cands, prof) if j % 6 else rng.choice(cands)      # mostly the real winner: an audit is possible
            recs.append(run_search(f"e{j}", cands, prof, w, rng.choice(["cp", "bp"]), None))
    if pid == "C14":
        # candidate identifiers that are substrings of one another, as in real exports ("4" and "47")
        recs += vote_records(["4", "47", "5", "3"] if tier == "thorough" else ["1", "12", "2"])
        recs += [r for r in vote_records(["4", "47", "5", "45"]) if rng.random() < 0.25] if tier == "quick" else []
        if tier == "thorough":
            recs += vote_records(["A", "B", "C", "D"])
        # unique tids for the sampled 4-candidate vote records
        for n_, r in enumerate(recs):
            r["tid"] = f"{r['tid']}#{n_}"
        recs += reader_records(rng, 150 if tier == "quick" else 2000)
    rejects, stats = core.validate_traces("Trace_Raire", recs, cfg_consts="", timeout=3400)
    rep.add_trace_stats("Trace_Raire", stats)
    byid = {r["tid"]: r for r in recs}
    for tid, clauses in rejects.items():
        r = byid[tid]
        for cl in clauses:
            if belongs(pid, cl):
                site = {"search": "compute_raire_assertions", "vote": "ballot-interpretation", "reader": "raire-readers"}[r["kind"]]
                if r["kind"] == "search":
                    site += "/" + r["fn"]
                rep.violation(site, cl, f"{r['kind']} record {tid}: clause {cl}", r)
    for r in recs:
        rep.clause_count(r["kind"], not [c for c in rejects.get(r["tid"], []) if belongs(pid, c)])
    for r in recs[:1] + recs[len(recs) // 2: len(recs) // 2 + 1] + recs[-1:]:
        rep.sample(r)
    if pid == "C15":
        # beyond the listed properties: the search's own steps (spec/RaireSearch*.tla); observations only
        from . import check_rairesearch
        check_rairesearch.steps_part(rep, tier, rng)
    rep.assumptions += ["3 candidates exhaustively (every multiset of <=4/5 partial rankings, every reported winner, both "
                        "difficulty functions, order hints); 4-5 candidates by seeded random profiles",
                        "float difficulties compared with exact ones within 1e-9; float ties only permute equally difficult assertions",
                        "each search runs under a 5 s limit; not returning is a violation (Timeout)"]
    return rep.finish()
