"""C02: assorter means vs. real winners (spec/Ballots.tla, BallotsMC.tla, Trace_Ballots.tla)."""
import random
import warnings
from fractions import Fraction as F

from . import core
from .core import Report, rs

CANDS = ["A", "B", "C"]
SHARES = [F(1, 3), F(1, 2), F(3, 5), F(2, 3)]
_LOSERS = {}
_LISTS = {}
TRUTHY = [True, 1, 5, "marked"]
FALSY = [False, 0, "", None]     # None = the candidate key is absent


def mc_cfg(maxb, emit):
    mod = "MC_BallotsRun"
    text = f"""---- MODULE {mod} ----
EXTENDS BallotsMC
MC_Shares == {{{", ".join(f'RParse("{s.numerator}/{s.denominator}")' for s in SHARES)}}}
====
"""
    cfg = f"""CONSTANTS
  Cands = {{"A","B","C"}}
  MaxBallots = {maxb}
  Shares <- MC_Shares
INIT Init
NEXT Next
CHECK_DEADLOCK FALSE
INVARIANT SumInvariant
INVARIANT PluralityIff
INVARIANT PluralityIffAllCards
INVARIANT SuperIff
INVARIANT AssorterRange
INVARIANT MarginIdentity
INVARIANT CountersAgree
"""
    if emit:
        cfg += "INVARIANT Emit\n"
    return mod, text, cfg


def encode(ballot, rng, cands):
    """a concrete votes dict for one contest with a seed-chosen truthy/falsy encoding of each mark"""
    d = {}
    for c in cands:
        if c in ballot["m"]:
            d[c] = rng.choice(TRUTHY)
        else:
            v = rng.choice(FALSY)
            if v is not None:
                d[c] = v
    return d


def run_profile(tid, ballots, rng):
    """drive the real code on one profile; returns the trace record"""
    import numpy as np
    from shangrla.core.Audit import Assertion, Audit, Contest, CVR
    from shangrla.core.NonnegMean import NonnegMean
    excs = []

    def guard(field, fn, default="exc"):
        try:
            with warnings.catch_warnings():
                warnings.simplefilter("ignore")
                return fn()
        except Exception as ex:
            excs.append({"field": field, "type": type(ex).__name__, "site": core.exc_site(ex)})
            return default
    order = list(range(len(ballots)))
    rng.shuffle(order)          # list order must not matter; the record keeps the shuffled order
    bl = [ballots[k] for k in order]
    # the card list is a long-lived object too: one list per length, refilled in place from profile to profile
    cvrs = _LISTS.setdefault(len(bl), [])
    cvrs.clear()
    for k, b in enumerate(bl):
        votes = {}
        if b["has"]:
            votes["con"] = encode(b, rng, CANDS)
            if not b["m"] and rng.random() < 0.4:
                votes["con"]["write-in"] = rng.choice(TRUTHY)    # an option that is not a listed candidate: no vote
        if rng.random() < 0.5:
            votes["other"] = {"X": 1}
        cvrs.append(CVR(id=f"c{k}", votes=votes))
    n_style = sum(1 for b in bl if b["has"])
    rec = {"tid": tid, "cands": CANDS, "ballots": bl, "plur": [], "super": [], "excs": excs}

    def contest(choice, k=1, share=None, cards=0, winner=None):
        return Contest.from_dict({"id": "con", "name": "con", "risk_limit": 0.05, "cards": cards,
                                  "choice_function": choice, "n_winners": k, "share_to_win": share,
                                  "candidates": list(CANDS), "winner": winner or ["A"],
                                  "audit_type": Audit.AUDIT_TYPE.POLLING, "test": NonnegMean.alpha_mart,
                                  "estim": NonnegMean.fixed_alternative_mean, "use_style": True})
    # tallies (a contest may have been tabulated before, on other cards; the tally object keeps every marked option)
    full = {}
    for key, k, enforce in (("tally_raw", 1, False), ("tally_k1", 1, True), ("tally_k2", 2, True)):
        con = contest(Contest.SOCIAL_CHOICE_FUNCTION.PLURALITY, k=k)

        def t(con=con, enforce=enforce, key=key):
            if rng.random() < 0.5:
                Contest.tally({"con": con}, cvrs[: rng.randint(1, len(cvrs))], enforce_rules=rng.random() < 0.5)
            Contest.tally({"con": con}, cvrs, enforce_rules=enforce)
            # the contest's own tally object as a plain dict: every marked option (listed or not) and an explicit 0 for
            # each listed candidate nobody marked (an empty tally would read as "no tally given")
            counts = {c: int(con.tally.get(c, 0)) for c in CANDS}
            full[key] = {**{o: int(v) for o, v in dict(con.tally).items()}, **counts}
            return counts
        rec[key] = guard(key, t, default={c: -1 for c in CANDS})
    # plurality pairs (built through winner sets of size 1 and 2, the union covers every ordered pair)
    seen = {}
    for W in (["A"], ["B"], ["C"], ["A", "B"], ["A", "C"], ["B", "C"]):
        L = [c for c in CANDS if c not in W]
        con = contest(Contest.SOCIAL_CHOICE_FUNCTION.PLURALITY, k=len(W), winner=W)
        asns = guard("make_plurality", lambda: Assertion.make_plurality_assertions(
            contest=con, winner=W, loser=L, test=NonnegMean.alpha_mart, estim=NonnegMean.fixed_alternative_mean), {})
        if asns == "exc":
            asns = {}
        for w in W:
            for l in L:
                if (w, l) in seen or f"{w} v {l}" not in asns:
                    continue
                a = asns[f"{w} v {l}"]
                seen[(w, l)] = True
                e = {"w": w, "l": l}
                e["assort"] = guard("plur.assort", lambda: [rs(a.assorter.assort(c)) for c in cvrs], [])
                if e["assort"] == "exc":
                    e["assort"] = []
                e["mean_style"] = guard("plur.mean", lambda: rs(a.assorter.mean(cvrs, use_style=True))) if n_style else "nan"
                e["mean_all"] = guard("plur.mean", lambda: rs(a.assorter.mean(cvrs, use_style=False)))
                e["margin_style"] = guard("plur.margin", lambda: rs(Assertion.margin(a, cvrs, use_style=True))) if n_style else "nan"

                def tm(cards):
                    con.cards = cards
                    route = rng.randrange(3) if "tally_raw" in full else 0
                    if route == 0:
                        a.find_margin_from_tally(rec["tally_raw"])
                    elif route == 1:
                        a.find_margin_from_tally(full["tally_raw"])
                    else:
                        con.tally = full["tally_raw"]
                        a.find_margin_from_tally()
                    return rs(a.margin)
                e["tmargin_style"] = guard("plur.tally_margin", lambda: tm(n_style)) if n_style else "nan"
                e["tmargin_all"] = guard("plur.tally_margin", lambda: tm(len(cvrs)))
                rec["plur"].append(e)
    # super-majority (the caller's loser list is one long-lived object per winner, as a contest's would be;
    # share_to_win is given by keyword in some calls and left to the contest in others)
    for w in CANDS:
        for f in SHARES:
            L = _LOSERS.setdefault(w, [c for c in CANDS if c != w])
            con = contest(Contest.SOCIAL_CHOICE_FUNCTION.SUPERMAJORITY, share=float(f), winner=[w], cards=n_style)
            kws = dict(contest=con, winner=w, loser=L, test=NonnegMean.alpha_mart, estim=NonnegMean.fixed_alternative_mean)
            if rng.random() < 0.5:
                kws["share_to_win"] = float(f)
            asns = guard("make_supermajority", lambda: Assertion.make_supermajority_assertion(**kws), "exc")
            if asns == "exc":
                continue
            a = next(iter(asns.values()))
            e = {"w": w, "f": rs(f)}
            e["upper_bound"] = rs(a.assorter.upper_bound)
            vals = []
            for c in cvrs:
                vals.append(guard("super.assort", lambda: rs(a.assorter.assort(c))))
            e["assort"] = vals
            e["mean_style"] = guard("super.mean", lambda: rs(a.assorter.mean(cvrs, use_style=True))) if n_style else "nan"
            e["mean_all"] = guard("super.mean", lambda: rs(a.assorter.mean(cvrs, use_style=False)))

            def tm():
                route = rng.randrange(3) if "tally_k1" in full else 0
                if route == 0:
                    a.find_margin_from_tally(rec["tally_k1"])
                elif route == 1:
                    a.find_margin_from_tally(full["tally_k1"])
                else:
                    con.tally = full["tally_k1"]
                    a.find_margin_from_tally()
                return rs(a.margin)
            e["tmargin_style"] = guard("super.tally_margin", tm) if n_style else "nan"
            rec["super"].append(e)
    # de-duplicate exceptions (one per field/type/site)
    uniq = {(e["field"], e["type"], e["site"]): e for e in excs}
    rec["excs"] = list(uniq.values())
    return rec


def apalache_obligations(rep):
    """Unbounded strengthening (not a dependency): the tally / assorter-sum relation as an inductive invariant,
    discharged by Apalache for any number of ballots (spec/BallotsInd.tla)."""
    import shutil
    import subprocess
    import tempfile
    import time
    if shutil.which("apalache-mc") is None:
        rep.notes.append("apalache-mc not found: inductive-invariant obligations skipped")
        return
    obligations = [("base: Init => IndInv", ["--init=Init", "--inv=IndInv", "--length=0"]),
                   ("step: IndInv /\\ Next => IndInv'", ["--init=IndInit", "--inv=IndInv", "--length=1"]),
                   ("IndInv => PluralityIff", ["--init=IndInit", "--inv=PluralityIff", "--length=0"])]
    wd = tempfile.mkdtemp(prefix="verif-apa-")
    out = []
    try:
        shutil.copy(core.SPEC + "/BallotsInd.tla", wd)
        for name, args in obligations:
            t0 = time.time()
            try:
                p = subprocess.run(["apalache-mc", "check", "--cinit=CInit", f"--out-dir={wd}/o"] + args + ["BallotsInd.tla"],
                                   cwd=wd, capture_output=True, text=True, timeout=400)
                txt = p.stdout + p.stderr
                ok = "The outcome is: NoError" in txt
                bad = "The outcome is: Error" in txt
            except subprocess.TimeoutExpired:
                ok, bad, txt = False, False, "timeout"
            out.append({"obligation": name, "discharged": ok, "wall_s": round(time.time() - t0, 1)})
            if bad:
                rep.violation("BallotsInd.tla", "apalache:" + name.split(":")[0],
                              f"Apalache found a counterexample to {name}", {"output": txt[-3000:]})
            elif not ok:
                rep.notes.append(f"apalache obligation '{name}' not decided ({txt[-200:]!r})")
    finally:
        shutil.rmtree(wd, ignore_errors=True)
    rep.cov["apalache_inductive_invariant"] = out


def run(pid, tier):
    rep = Report(pid, tier)
    core.import_repo()
    rng = random.Random(core.seed() * 104729 + 5)
    maxb = 5 if tier == "quick" else 6
    mod, text, cfg = mc_cfg(maxb, emit=True)
    res = core.run_tlc(mod, cfg, workers=8, extra_files=[(mod + ".tla", text)], timeout=3000, coverage=True)
    core.require_actions(res, ["AddBallot"], "BallotsMC")
    rep.add_tlc("MC BallotsMC", res, consts={"Cands": CANDS, "MaxBallots": maxb, "Shares": [str(s) for s in SHARES]})
    if res.error:
        raise core.MachineryError(res.error[:2000])
    if res.violated:
        rep.violation("Ballots.tla", f"mc:{res.violated}", f"TLC: {res.violated} violated on the specification",
                      {"counterexample": res.cex[:4000]})
    profiles = core.beh_lines(res)
    if len(profiles) != res.distinct:
        raise core.MachineryError(f"{len(profiles)} behaviours emitted for {res.distinct} states")
    rep.cov["exhaustive"] = True
    recs = []
    for k, prof in enumerate(profiles):
        if not prof:
            continue
        recs.append(run_profile(f"p{k}", prof, rng))
    # beyond the bound: random larger profiles, four candidates' worth of marks stay within A,B,C
    nbig = 150 if tier == "quick" else 1500
    types = [{"has": False, "m": []}] + [{"has": True, "m": [c for j, c in enumerate(CANDS) if (mask >> j) & 1]}
                                         for mask in range(8)]
    for k in range(nbig):
        prof = [rng.choice(types) for _ in range(rng.randint(6, 30))]
        recs.append(run_profile(f"r{k}", prof, rng))
    apalache_obligations(rep)
    # beyond the listed properties: the tabulation functions (spec/Tabulate*.tla); observations only
    from . import check_tabulate
    check_tabulate.tabulate_part(rep, tier, rng)
    rejects, stats = core.validate_traces("Trace_Ballots", recs)
    rep.add_trace_stats("Trace_Ballots", stats)
    byid = {r["tid"]: r for r in recs}
    for tid, clauses in rejects.items():
        r = byid[tid]
        for cl in clauses:
            site = "Audit.py"
            rep.violation(site, cl, f"profile {r['ballots']}: clause {cl}", r)
    for r in recs:
        rep.clause_count("record", r["tid"] not in rejects)
    for r in recs[:2] + recs[-1:]:
        rep.sample({"ballots": r["ballots"], "plur[0]": r["plur"][:1], "super[0]": r["super"][:1],
                    "tally_raw": r["tally_raw"]})
    rep.assumptions += ["candidates A,B,C; marks encoded with seed-chosen truthy/falsy values; list order shuffled",
                        "'votes' are marks as the assorter counts them; tally identity checked against the raw tally and, for "
                        "super-majority, the one-vote rule tally"]
    return rep.finish()
