"""SeqTest family (C01 C05 C11 C12 C13): model checking of spec/SeqTestMC.tla, and conformance of
shangrla.core.NonnegMean against spec/Trace_SeqTest.tla.
"""
import itertools
import math
import random
import warnings
from fractions import Fraction as F

from . import core
from .core import rs

EPS = F(1, 2 ** 52)


# ----------------------------------------------------------------------------- configurations
def mkcfg(name, method, estim, N, u, t=F(1, 2), eta=None, lam=F(1, 2), g=F(0), d=100, c=F(1, 2), cg=None,
          p2=F(1, 10000), ro=True, f=0, grow=0, horizon=None, extra=None, drive=None):
    u = F(u)
    if eta is None:
        eta = (t + u) / 2
    if cg is None:
        cg = 1 - EPS
    return dict(name=name, method=method, estim=estim, N=N, u=u, t=F(t), eta=F(eta), lam=F(lam), g=F(g), d=d,
                c=F(c), cg=F(cg), p2=F(p2), ro=ro, f=f, grow=grow, horizon=horizon, extra=extra or {},
                drive=drive or {})


def cs_seq(cfg, n):
    """rational approximations (12 digits) of c/sqrt(d+j-1), j = 1..n"""
    out = []
    for j in range(1, n + 1):
        v = float(cfg["c"]) / math.sqrt(cfg["d"] + j - 1)
        out.append(F(round(v * 10 ** 12), 10 ** 12))
    return out


def configs(tier):
    """The configurations explored.  N = 0 means an infinite population (IID draws)."""
    Ns = [0, 5] if tier == "quick" else [0, 4, 6]
    out = []
    for N in Ns:
        tag = "inf" if N == 0 else f"N{N}"
        for u in ([F(1), F(9, 8)] if tier == "quick" else [F(1), F(9, 8), F(3, 2), F(3, 4)]):
            ut = f"u{u.numerator}_{u.denominator}"
            out.append(mkcfg(f"alpha-fixed-{tag}-{ut}", "ALPHA", "fixed", N, u))
            out.append(mkcfg(f"alpha-shrink-{tag}-{ut}", "ALPHA", "shrink", N, u, d=2, c=F(1, 4)))
            out.append(mkcfg(f"bet-fixed-{tag}-{ut}", "BETTING", "fixedbet", N, u, lam=1 / u))
            out.append(mkcfg(f"bet-agrapa-{tag}-{ut}", "BETTING", "agrapa", N, u, lam=F(1, 2)))
            if u > 1:
                out.append(mkcfg(f"alpha-optcomp-{tag}-{ut}", "ALPHA", "optcomp", N, u))
                out.append(mkcfg(f"alpha-optcomp0-{tag}-{ut}", "ALPHA", "optcomp", N, u, p2=F(0)))
            if u == 1:    # parameter corners: initial bet beyond the cap, alternative close to u, heavy shrinkage
                out.append(mkcfg(f"bet-agrapa-lam52-{tag}-{ut}", "BETTING", "agrapa", N, u, lam=F(5, 2)))
                out.append(mkcfg(f"bet-agrapa-cg34-{tag}-{ut}", "BETTING", "agrapa", N, u, lam=F(1, 4), cg=F(3, 4)))
                out.append(mkcfg(f"alpha-fixed-eta78-{tag}-{ut}", "ALPHA", "fixed", N, u, eta=F(7, 8)))
                out.append(mkcfg(f"alpha-shrink-d100-{tag}-{ut}", "ALPHA", "shrink", N, u, d=100, c=F(1, 2),
                                 eta=F(15, 16)))
                out.append(mkcfg(f"bet-fixed-lam14-{tag}-{ut}", "BETTING", "fixedbet", N, u, lam=F(1, 4)))
            out.append(mkcfg(f"sprt-{tag}-{ut}", "SPRT", "none", N, u))
        if N == 0:
            for g in (F(0), F(1, 8)):
                gt = f"g{g.numerator}_{g.denominator}"
                out.append(mkcfg(f"km-{tag}-{gt}", "KM", "none", N, F(1), g=g))
                out.append(mkcfg(f"kw-{tag}-{gt}", "KW", "none", N, F(1), g=g))
        else:
            for g in (F(0), F(1, 8)):
                gt = f"g{g.numerator}_{g.denominator}"
                out.append(mkcfg(f"kk-{tag}-{gt}", "KK", "none", N, F(1), g=g))
    # a null mean other than 1/2 (N t = 1 with N = 4: totals hit N t exactly after a single 1)
    for N in ([0, 4] if tier == "quick" else [0, 4, 8]):
        tag = "inf" if N == 0 else f"N{N}"
        q = F(1, 4)
        out.append(mkcfg(f"alpha-fixed-t14-{tag}", "ALPHA", "fixed", N, F(1), t=q))
        out.append(mkcfg(f"alpha-shrink-t14-{tag}", "ALPHA", "shrink", N, F(1), t=q, d=2, c=F(1, 4)))
        out.append(mkcfg(f"bet-fixed-t14-{tag}", "BETTING", "fixedbet", N, F(1), t=q, lam=F(1)))
        out.append(mkcfg(f"bet-agrapa-t14-{tag}", "BETTING", "agrapa", N, F(1), t=q, lam=F(1, 2)))
        out.append(mkcfg(f"sprt-t14-{tag}", "SPRT", "none", N, F(1), t=q))
        if N:
            out.append(mkcfg(f"kk-t14-{tag}", "KK", "none", N, F(1), t=q, g=F(1, 8)))
        else:
            out.append(mkcfg(f"km-t14-{tag}", "KM", "none", N, F(1), t=q, g=F(1, 8)))
            out.append(mkcfg(f"kw-t14-{tag}", "KW", "none", N, F(1), t=q, g=F(1, 8)))
    # a very small null mean, no padding: one zero ruins Kaplan-Markov for good however many large draws follow
    out.append(mkcfg("km-t1024-inf-g0", "KM", "none", 0, F(1), t=F(1, 1024), g=F(0)))
    # a population in which the null becomes certain (the rest could all be u and the total would still fall short of
    # N t, N t not an integer) while a cautious bettor is still ahead: gains first, then losses to the end
    out.append(mkcfg("bet-fixed-lam120-t920-N16", "BETTING", "fixedbet", 16, F(1), t=F(9, 20), lam=F(1, 20),
                     drive={"keepN": True, "ones_then_zeros": True}))
    out.append(mkcfg("alpha-fixed-eta12-t920-N16", "ALPHA", "fixed", 16, F(1), t=F(9, 20), eta=F(1, 2),
                     drive={"keepN": True, "ones_then_zeros": True}))
    # a bound other than 1 with a null conditional mean that lands exactly on it (u = 2, N t = 6: after one 0 the
    # remaining three cards must all be 2)
    out.append(mkcfg("alpha-fixed-u2-t32-N4", "ALPHA", "fixed", 4, F(2), t=F(3, 2), drive={"keepN": True}))
    out.append(mkcfg("bet-fixed-u2-t32-N4", "BETTING", "fixedbet", 4, F(2), t=F(3, 2), lam=F(1, 4), drive={"keepN": True}))
    # a bet of exactly zero, and a population bound and null mean well above 1
    for N in ([0, 4] if tier == "quick" else [0, 4, 6]):
        tag = "inf" if N == 0 else f"N{N}"
        out.append(mkcfg(f"bet-fixed-lam0-{tag}", "BETTING", "fixedbet", N, F(1), lam=F(0)))
        out.append(mkcfg(f"bet-fixed-lam0-u3-{tag}", "BETTING", "fixedbet", N, F(3), t=F(5, 2), lam=F(0)))
        out.append(mkcfg(f"bet-fixed-u3-{tag}", "BETTING", "fixedbet", N, F(3), t=F(5, 2), lam=F(1, 4)))
    # the smallest margins (u -> 1+): optimal_comparison with the default assumed error rate
    for N in Ns:
        tag = "inf" if N == 0 else f"N{N}"
        out.append(mkcfg(f"alpha-optcomp-tiny-{tag}", "ALPHA", "optcomp", N, F(65537, 65536)))
    # a tiny margin again, with an assumed two-vote rate small enough for it (the estimate then stays inside [0, u])
    for N in Ns:
        tag = "inf" if N == 0 else f"N{N}"
        out.append(mkcfg(f"alpha-optcomp-small-{tag}", "ALPHA", "optcomp", N, F(131073, 131072), p2=F(1, 1000000)))
        # the SPRT takes its alternative from eta alone, whatever estimator the object was built with
        out.append(mkcfg(f"sprt-shrinkobj-{tag}", "SPRT", "none", N, F(1), drive={"sprt_estim": True}))
    # extra code-only variants (estimator parameters the specification does not transcribe)
    for N in Ns:
        tag = "inf" if N == 0 else f"N{N}"
        out.append(mkcfg(f"alpha-shrinkf-{tag}", "ALPHA", "shrinkf", N, F(1), d=2, c=F(1, 4), f=1))
        out.append(mkcfg(f"bet-agrapag-{tag}", "BETTING", "agrapag", N, F(1), lam=F(1, 2), grow=1,
                         extra={"c_grapa_0": 0.5}))
        out.append(mkcfg(f"alpha-fixed-ro0-{tag}", "ALPHA", "fixed", N, F(1), ro=False))
        out.append(mkcfg(f"bet-fixed-ro0-{tag}", "BETTING", "fixedbet", N, F(1), lam=F(3, 4), ro=False))
        if N == 0:
            out.append(mkcfg(f"km-ro0-{tag}", "KM", "none", N, F(1), g=F(1, 8), ro=False))
            out.append(mkcfg(f"kw-ro0-{tag}", "KW", "none", N, F(1), g=F(1, 8), ro=False))
            out.append(mkcfg(f"sprt-ro0-{tag}", "SPRT", "none", N, F(1), ro=False))
        else:
            out.append(mkcfg(f"kk-ro0-{tag}", "KK", "none", N, F(1), g=F(1, 8), ro=False))
    return out


def grid(cfg, k=2):
    return [cfg["u"] * i / k for i in range(k + 1)]


# ----------------------------------------------------------------------------- TLA rendering
def tla_r(x):
    x = F(x)
    return f'RParse("{x.numerator}/{x.denominator}")'


def spec_estim(cfg):
    """estimator names the specification transcribes; the others are 'other' (no transcription)"""
    return cfg["estim"] if cfg["estim"] in ("fixed", "shrink", "optcomp", "fixedbet", "agrapa", "none") else "other"


def tla_cfg_record(cfg, n):
    cs = ", ".join(tla_r(v) for v in cs_seq(cfg, n + 1))
    return ("[method |-> \"%s\", estim |-> \"%s\", N |-> %d, u |-> %s, t |-> %s, eta |-> %s, lam |-> %s, "
            "g |-> %s, d |-> %d, cs |-> <<%s>>, cg |-> %s, p2 |-> %s, ro |-> %s]" % (
                cfg["method"], spec_estim(cfg), cfg["N"], tla_r(cfg["u"]), tla_r(cfg["t"]), tla_r(cfg["eta"]),
                tla_r(cfg["lam"]), tla_r(cfg["g"]), cfg["d"], cs, tla_r(cfg["cg"]), tla_r(cfg["p2"]),
                "TRUE" if cfg["ro"] else "FALSE"))


def null_pops(cfg, gr, n_iid_den=4):
    """finite N: all multisets of size N on the grid with mean <= t; IID: weight vectors with denominators
    n_iid_den and mean <= t"""
    K = len(gr)
    tot = cfg["N"] if cfg["N"] else n_iid_den
    out = []
    for counts in itertools.product(range(tot + 1), repeat=K):
        if sum(counts) != tot:
            continue
        if sum(cn * v for cn, v in zip(counts, gr)) <= cfg["t"] * tot:
            out.append(counts)
    return out


INV_NULL = ["WellFormed", "FactorNonneg", "CondExpLeOne", "Ville", "AlphaEqualsBetting", "ConvInverse", "StopOnlyLowers"]
INV_ANY = ["WellFormed", "EstInRange", "ShrinkAboveNull", "FactorNonneg", "AlphaEqualsBetting", "ConvInverse",
           "StopOnlyLowers"]
PROP_ALL = ["Absorbing", "NonAnticipating"]

# which property each model-checked formula belongs to
FORMULA_PROPERTY = {
    "WellFormed": ["C11"], "EstInRange": ["C13"], "ShrinkAboveNull": ["C13"], "FactorNonneg": ["C13", "C01"],
    "CondExpLeOne": ["C01"], "Ville": ["C01"], "AlphaEqualsBetting": ["C12"], "ConvInverse": ["C12"],
    "Absorbing": ["C12"], "NonAnticipating": ["C05"], "StopOnlyLowers": ["C05"],
}


def mc_module(name, cfg, gr, pops, horizon, any_sample, free):
    mod = f"MC_{name}"
    pops_t = "{" + ", ".join("<<" + ", ".join(str(c) for c in p) + ">>" for p in pops) + "}"
    text = f"""---- MODULE {mod} ----
EXTENDS SeqTestMC
MC_C == {tla_cfg_record(cfg, horizon)}
MC_Grid == <<{", ".join(tla_r(v) for v in gr)}>>
MC_Pops == {pops_t}
====
"""
    cfgt = f"""CONSTANTS
  C <- MC_C
  Grid <- MC_Grid
  Pops <- MC_Pops
  Horizon = {horizon}
  AnySample = {"TRUE" if any_sample else "FALSE"}
  Free = {"TRUE" if free else "FALSE"}
INIT Init
NEXT Next
CHECK_DEADLOCK FALSE
"""
    return mod, text, cfgt


def run_mc(cfg, *, horizon, any_sample, free, invariants, props, k=2, workers=4, timeout=1800):
    """Run TLC on one configuration; on a violated formula, record it, drop it and rerun, so that the
    remaining formulas are still checked.  Returns (list of (formula, cex text), last TLCResult, all results)."""
    gr = grid(cfg, k)
    if any_sample:
        pops = [tuple([cfg["N"] or 1] * len(gr))]
    else:
        pops = null_pops(cfg, gr)
    tag = f"{cfg['name']}-{'any' if any_sample else 'null'}{'-free' if free else ''}".replace("-", "_")
    mod, text, cfgt = mc_module(tag, cfg, gr, pops, horizon, any_sample, free)
    invs = list(invariants)
    prs = list(props)
    failed = []
    results = []
    while True:
        c = cfgt + "".join(f"INVARIANT {i}\n" for i in invs) + "".join(f"PROPERTY {p}\n" for p in prs)
        res = core.run_tlc(mod, c, workers=workers, extra_files=[(mod + ".tla", text)], timeout=timeout,
                           coverage=False, heap="3g")
        results.append(res)
        if res.error:
            raise core.MachineryError(f"TLC error in {tag}: {res.error[:2000]}")
        if res.violated:
            v = res.violated
            failed.append((v, res.cex))
            if v in invs:
                invs.remove(v)
            elif v in prs:
                prs.remove(v)
            else:
                raise core.MachineryError(f"unrecognised violated formula {v} in {tag}")
            continue
        if res.rc != 0:
            raise core.MachineryError(f"TLC exit {res.rc} in {tag}: {res.out[-1500:]}")
        return failed, res, results, dict(pops=len(pops), horizon=horizon, grid=[str(v) for v in gr])


# ----------------------------------------------------------------------------- driving the code
def build_test(cfg):
    from shangrla.core.NonnegMean import NonnegMean
    m = cfg["method"]
    kw = dict(u=float(cfg["u"]), N=(cfg["N"] if cfg["N"] else float("inf")), t=float(cfg["t"]),
              random_order=cfg["ro"])
    test = {"ALPHA": NonnegMean.alpha_mart, "BETTING": NonnegMean.betting_mart, "KK": NonnegMean.kaplan_kolmogorov,
            "KM": NonnegMean.kaplan_markov, "KW": NonnegMean.kaplan_wald, "SPRT": NonnegMean.wald_sprt}[m]
    e = cfg["estim"]
    if m in ("ALPHA", "SPRT"):
        kw["eta"] = float(cfg["eta"])
    if m == "ALPHA":
        if e == "fixed":
            kw["estim"] = NonnegMean.fixed_alternative_mean
        elif e in ("shrink", "shrinkf"):
            kw.update(estim=NonnegMean.shrink_trunc, c=float(cfg["c"]), d=cfg["d"], f=cfg["f"])
        elif e == "optcomp":
            kw.update(estim=NonnegMean.optimal_comparison, rate_error_2=float(cfg["p2"]))
    if m == "SPRT" and cfg.get("drive", {}).get("sprt_estim"):
        kw.update(estim=NonnegMean.shrink_trunc, c=0.5, d=10)
    if m == "BETTING":
        kw["lam"] = float(cfg["lam"])
        if e == "fixedbet":
            kw["bet"] = NonnegMean.fixed_bet
        elif e in ("agrapa", "agrapag"):
            kw.update(bet=NonnegMean.agrapa, c_grapa_grow=cfg["grow"])
            if e == "agrapa":
                kw.update(c_grapa_0=float(cfg["cg"]), c_grapa_max=float(cfg["cg"]))
    late_g = None
    if m in ("KK", "KM", "KW"):
        # the padding is given to the constructor, or set on the object afterwards (as the library's own tests do)
        _BUILT[0] += 1
        if _BUILT[0] % 2:
            kw["g"] = float(cfg["g"])
        else:
            late_g = float(cfg["g"])
            if _BUILT[0] % 4 == 0:
                kw["g"] = float(cfg["g"]) + 0.25
    kw.update(cfg["extra"])
    # the population bound, too, is given to the constructor or installed afterwards (Assertion.set_p_values and the
    # margin setters assign test.u on an existing object): the test must work with the bound it carries when called
    late_u = None
    _BUILT[1] += 1
    if m in ("ALPHA", "BETTING") and _BUILT[1] % 3 == 0:
        late_u = kw["u"]
        kw["u"] = kw["u"] * 2 if _BUILT[1] % 2 else 1.0
    # ... and so is the sampling-order flag (the library's own tests flip it on an existing object)
    late_ro = None
    if _BUILT[1] % 4 == 1:
        late_ro = kw["random_order"]
        kw["random_order"] = not late_ro
    obj = NonnegMean(test=test, **kw)
    if late_ro is not None:
        obj.random_order = late_ro
    if late_g is not None:
        obj.g = late_g
    if late_u is not None:
        obj.u = late_u
    return obj


_BUILT = [0, 0]


def run_sample(tst, cfg, xs, buf=None):
    """One execution: test(x), and estim(x) / bet(x) where the method has them.
    The sample is handed over the way callers do: as a view of a longer float array that also served the
    previous (shorter) samples of the walk - never copied, so a call that alters its input is felt by the next -
    or, when every value is a whole number, as an integer (int64) array."""
    import numpy as np
    n = len(xs)
    if buf is not None:
        buf[n - 1] = float(xs[-1])
        x = buf[:n]
    else:
        x = np.array([float(v) for v in xs])
    if all(v.denominator == 1 for v in xs) and (sum(int(v) for v in xs) + n) % 2 == 0:
        # whole-number samples also arrive as integer or boolean arrays (e.g. votes == winner)
        # (boolean arrays only where the running mean / variance helper is not involved: it cannot subtract booleans)
        okbool = all(v <= 1 for v in xs) and cfg["estim"] not in ("shrink", "shrinkf", "agrapa", "agrapag")
        dt = [np.int64, np.int8, bool if okbool else np.int32][(n + sum(int(v) for v in xs) // 2) % 3]
        xin = lambda: np.array([int(v) for v in xs]).astype(dt)
    else:
        xin = lambda: x
    # a test object is a live object: between two uses its population size may be set to something else and back
    if (n + len(cfg["name"])) % 3 == 0:
        realN, realu = tst.N, tst.u
        try:
            tst.N = (n + 3) if not np.isfinite(realN) else realN + 3
            tst.u = realu * 1.25          # (as set_p_values does with every new margin)
            with warnings.catch_warnings():
                warnings.simplefilter("ignore")
                # (tolerances given by keyword belong to that one call)
                kws = {"atol": 0.25, "rtol": 0.25} if cfg["method"] in ("ALPHA", "BETTING") and n % 2 == 0 else {}
                tst.test(np.array([float(v) for v in xs]), **kws)
        except Exception:
            pass
        finally:
            tst.N, tst.u = realN, realu
    # ... or it has just tested another sample of the same length (same N, u), and the estimator / bet is then asked
    # directly about this one before any test of it
    est_first = (n + len(cfg["name"])) % 3 == 1
    if est_first:
        try:
            with warnings.catch_warnings():
                warnings.simplefilter("ignore")
                other = [float(cfg["u"]) - float(v) for v in reversed(xs)]
                tst.test(np.array(other))
        except Exception:
            pass
    try:
        with warnings.catch_warnings():
            warnings.simplefilter("ignore")
            est = None
            if est_first and cfg["method"] == "ALPHA":
                est = tst.estim(np.array(xin()))
            elif est_first and cfg["method"] == "BETTING":
                est = tst.bet(np.array(xin()))
            p, ph = tst.test(xin())
            if est is not None:
                pass
            elif cfg["method"] == "ALPHA":
                est = tst.estim(np.array(xin()))
            elif cfg["method"] == "BETTING":
                est = tst.bet(np.array(xin()))
        ph = [rs(v) for v in np.atleast_1d(ph)]
        if est is None:
            est_l = []
        else:
            est = np.asarray(est, dtype=float)
            est_l = [rs(v) for v in (np.broadcast_to(est, x.shape) if est.ndim == 0 else est)]
        return {"out": {"ph": ph, "est": est_l, "p": rs(p)}}
    except Exception as ex:  # an exception on a sample inside the domain is itself an observation
        return {"exc": {"type": type(ex).__name__, "site": core.exc_site(ex)}}


def cfg_json(cfg, n):
    return {"method": cfg["method"], "estim": spec_estim(cfg), "family": ("agrapa" if cfg["estim"].startswith("agrapa") else "-"),
            "N": cfg["N"], "u": rs(cfg["u"]), "t": rs(cfg["t"]),
            "eta": rs(cfg["eta"]), "lam": rs(cfg["lam"]), "g": rs(cfg["g"]), "d": cfg["d"],
            "cs": ([rs(v) for v in cs_seq(cfg, n + 1)] if spec_estim(cfg) == "shrink" else []),
            "cg": rs(cfg["cg"]), "p2": rs(cfg["p2"]), "ro": cfg["ro"]}


def dfs_samples(gr, depth):
    """all sequences on the grid of length 1..depth, depth-first (a prefix before its extensions)"""
    def rec(prefix):
        if prefix:
            yield tuple(prefix)
        if len(prefix) < depth:
            for v in gr:
                prefix.append(v)
                yield from rec(prefix)
                prefix.pop()
    yield from rec([])


def code_records(cfg, samples, depth, tidp):
    """records for Trace_SeqTest, in the order given (must be depth-first for the chain clauses)"""
    import numpy as np
    tst = build_test(cfg)
    cj = cfg_json(cfg, depth)
    recs = []
    buf = np.zeros(max([depth] + [len(s) for s in samples]))
    for k, xs in enumerate(samples):
        r = {"kind": "run", "tid": f"{tidp}:{k}", "walk": f"{tidp}:{rs(xs[0])}", "cfgname": cfg["name"], "cfg": cj,
             "x": [rs(v) for v in xs]}
        r.update(run_sample(tst, cfg, [F(v) for v in xs], buf))
        recs.append(r)
    return recs


def random_walk_samples(cfg, rng, n_walks, length, k=4):
    """random long samples beyond the exhaustive bound: each walk is a chain x[1..1], x[1..2], ... (depth-first)"""
    gr = grid(cfg, k)
    out = []
    for w in range(n_walks):
        L = length if cfg["N"] == 0 else min(length, cfg["N"])
        xs = [rng.choice(gr) for _ in range(L)]
        if cfg.get("drive", {}).get("ones_then_zeros"):
            k1 = 4 + w % 5
            xs = [gr[-1]] * k1 + [gr[0]] * (L - k1)
        elif w % 2 == 1:      # a long run of the smallest or the largest value first
            run = rng.randint(L // 4, max(L // 4, (3 * L) // 4))
            xs[:run] = [gr[0] if w % 4 == 1 else gr[-1]] * run
        for j in range(1, L + 1):
            out.append(tuple(xs[:j]))
            if j < L:   # one alternative continuation, so that sibling clauses are exercised
                alt = rng.choice(gr)
                if alt != xs[j]:
                    out.append(tuple(xs[:j]) + (alt,))
        # (the alternative sibling precedes the chain's own continuation; both follow their parent)
    return out


def site_of(cfg):
    s = f"{cfg['method']}/{cfg['estim']}/{'inf' if cfg['N'] == 0 else 'fin'}/u={cfg['u']}"
    if cfg["t"] != F(1, 2):
        s += f"/t={cfg['t']}"
    if cfg["method"] in ("KK", "KM", "KW"):
        s += f"/g={cfg['g']}"
    if not cfg["ro"]:
        s += "/ro0"
    return s


def conv_records(rng, n):
    """lam_to_eta / eta_to_lam on grid pairs (C12)"""
    from shangrla.core.NonnegMean import NonnegMean
    recs = []
    us = [F(1), F(9, 8), F(3, 2), F(3, 4)]
    k = 0
    for u in us:
        tst = NonnegMean(u=float(u))
        ms = [u * i / 8 for i in range(1, 8)]
        for m in ms:
            # (bets below 0 / alternatives below the null mean included: the conversions are inverses on all of it)
            lams = [F(0), 1 / (2 * m), 1 / m, F(1, 4), -1 / (2 * (u - m)), -1 / (u - m)]
            etas = [m, (m + u) / 2, u, m + (u - m) / 4, m / 2, F(0)]
            for lam, eta in zip(lams, etas):
                e_of_l = tst.lam_to_eta(float(lam), float(m))
                l_of_e = tst.eta_to_lam(float(eta), float(m))
                recs.append({"kind": "conv", "tid": f"conv:{k}", "cfgname": "conversions", "u": rs(u), "m": rs(m),
                             "lam": rs(lam), "eta": rs(eta), "eta_of_lam": rs(e_of_l), "lam_of_eta": rs(l_of_e),
                             "lam_back": rs(tst.eta_to_lam(e_of_l, float(m))),
                             "eta_back": rs(tst.lam_to_eta(l_of_e, float(m)))})
                k += 1
            # the same conversions on whole arrays (what the estimators return), every value read back from the
            # caller's own arrays after all the calls: a conversion must not write into its argument
            import numpy as np
            lam_arr = np.array([float(v) for v in lams])
            eta_arr = np.array([float(v) for v in etas])
            e_of_l = tst.lam_to_eta(lam_arr, float(m))
            l_of_e = tst.eta_to_lam(eta_arr, float(m))
            lam_back = tst.eta_to_lam(e_of_l, float(m))
            eta_back = tst.lam_to_eta(l_of_e, float(m))
            for i2 in range(len(lams)):
                recs.append({"kind": "conv", "tid": f"conv:{k}", "cfgname": "conversions", "u": rs(u), "m": rs(m),
                             "lam": rs(lam_arr[i2]), "eta": rs(eta_arr[i2]), "eta_of_lam": rs(e_of_l[i2]),
                             "lam_of_eta": rs(l_of_e[i2]), "lam_back": rs(lam_back[i2]), "eta_back": rs(eta_back[i2])})
                k += 1
    return recs


def equiv_records(samples_by_key, tier):
    """alpha_mart driven by eta_j = lam_to_eta(bet_j, m_j) against betting_mart with that bet (C12)"""
    import numpy as np
    from shangrla.core.NonnegMean import NonnegMean
    recs = []
    k = 0
    for (N, u), samples in samples_by_key.items():
        for betname, betfn, kw in (("fixedbet", NonnegMean.fixed_bet, {"lam": 0.5}),
                                   ("agrapa", NonnegMean.agrapa, {"lam": 0.5})):
            NN = N if N else float("inf")
            bt = NonnegMean(test=NonnegMean.betting_mart, bet=betfn, u=float(u), N=NN, t=0.5, **kw)

            def estim(self, x, _bt=bt, _NN=NN):
                lam = _bt.bet(x)
                _S, _Stot, _j, m = self.sjm(_NN, self.t, x)
                return self.lam_to_eta(lam, m)
            al = NonnegMean(test=NonnegMean.alpha_mart, estim=estim, u=float(u), N=NN, t=0.5)
            for xs in samples:
                x = np.array([float(v) for v in xs])
                r = {"kind": "equiv", "tid": f"equiv:{k}", "cfgname": f"equiv-{betname}",
                     "site": f"ALPHA=BETTING/{betname}/{'inf' if N == 0 else 'fin'}/u={u}", "x": [rs(v) for v in xs]}
                k += 1
                try:
                    with warnings.catch_warnings():
                        warnings.simplefilter("ignore")
                        pa, ha = al.test(x.copy())
                        pb, hb = bt.test(x.copy())
                    r.update(ph_alpha=[rs(v) for v in ha], ph_bet=[rs(v) for v in hb], p_alpha=rs(pa), p_bet=rs(pb))
                except Exception as ex:
                    r["exc"] = {"type": type(ex).__name__, "site": core.exc_site(ex)}
                recs.append(r)
        # the other direction: betting_mart driven by lam_j = eta_to_lam(eta_j, m_j) against alpha_mart with that
        # eta_j (a constant strictly inside (0, u); below the null conditional mean the bet is negative)
        for mult in (0.45, 0.7):
            NN = N if N else float("inf")
            eta0 = mult * float(u)
            al = NonnegMean(test=NonnegMean.alpha_mart, estim=lambda self, x, _e=eta0: _e * np.ones(len(x)),
                            u=float(u), N=NN, t=0.5)

            def bet(self, x, _al=al, _NN=NN):
                _S, _Stot, _j, m = self.sjm(_NN, self.t, x)
                return self.eta_to_lam(_al.estim(x), m)
            bt = NonnegMean(test=NonnegMean.betting_mart, bet=bet, u=float(u), N=NN, t=0.5)
            for xs in samples:
                x = np.array([float(v) for v in xs])
                r = {"kind": "equiv", "tid": f"equiv:{k}", "cfgname": f"equiv-eta{mult}",
                     "site": f"BETTING=ALPHA/eta{mult}/{'inf' if N == 0 else 'fin'}/u={u}", "x": [rs(v) for v in xs]}
                k += 1
                try:
                    with warnings.catch_warnings():
                        warnings.simplefilter("ignore")
                        pa, ha = al.test(x.copy())
                        pb, hb = bt.test(x.copy())
                    r.update(ph_alpha=[rs(v) for v in ha], ph_bet=[rs(v) for v in hb], p_alpha=rs(pa), p_bet=rs(pb))
                except Exception as ex:
                    r["exc"] = {"type": type(ex).__name__, "site": core.exc_site(ex)}
                recs.append(r)
    return recs
