"""C20: pruned elimination tree (spec/ElimTree.tla, ElimTreeMC.tla, Trace_ElimTree.tla)."""
import contextlib
import io
import itertools
import random
import warnings

from . import core
from .core import Report


def mc(cands, maxatoms, emit=True):
    cfg = f"""CONSTANTS
  Cands = {{{", ".join('"%s"' % c for c in cands)}}}
  MaxAtoms = {maxatoms}
INIT Init
NEXT Next
CHECK_DEADLOCK FALSE
INVARIANT LeafIff
INVARIANT TagsExact
""" + ("INVARIANT Emit\n" if emit else "")
    return core.run_tlc("ElimTreeMC", cfg, workers=16, timeout=3400, heap="8g", coverage=True)


def flatten(tree, prefix, wol, irv):
    """nodes of the code's tree: pruned nodes and unpruned leaves, tags as the assertions they denote"""
    if len(tree) == 1:
        node = tree[0]
        path = prefix + [node.cand]
        # a tag is (number of the assertion in its list, whether it has been confirmed)
        neb = [{"kind": "NEB", "w": wol[k][1], "l": wol[k][0], "elim": [], "proved": bool(f)} for k, f in node.NEBTagList]
        ir = [{"kind": "NEN", "w": irv[k][0], "l": irv[k][0], "elim": sorted(irv[k][1]), "proved": bool(f)}
              for k, f in node.IRVTagList]
        return [{"path": path, "pruned": bool(neb or ir), "neb": neb, "irv": ir}]
    out = []
    for br in tree[1]:
        out += flatten(br, prefix + [tree[0]], wol, irv)
    return out


def count_markers(t):
    if len(t) == 2 and isinstance(t[1], str):
        return 1 if t[1].startswith("***Unpruned leaf") else 0
    return sum(count_markers(x) for x in t[1:])


def run_case(tid, cands, alt, atoms, rng):
    from shangrla.core import IRVVisualisationUtils as V
    # candidate identifiers are strings of different lengths in real exports ("1", "2", "12"): rename consistently
    if rng.random() < 0.6:
        # ... or integers starting at 0
        names = ["1", "2", "12", "3", "21"] if rng.random() < 0.6 else [0, 1, 2, 3, 4]
        ren = dict(zip(cands, names[:len(cands)]))
        cands = [ren[c] for c in cands]
        alt = ren[alt]
        atoms = [dict(a, w=ren[a["w"]], l=ren[a["l"]], elim=sorted(ren[e] for e in a["elim"])) for a in atoms]
    if atoms and rng.random() < 0.25:
        atoms = atoms + [dict(rng.choice(atoms))]      # a redundant set may list an assertion twice (confirmed or not)
    proved = [rng.random() < 0.5 for _ in atoms]
    atoms = [dict(a, proved=p) for a, p in zip(atoms, proved)]
    rec = {"tid": tid, "cands": cands, "alt": alt, "atoms": atoms}
    wol = [(a["l"], a["w"], p) for a, p in zip(atoms, proved) if a["kind"] == "NEB"]
    irv = [(a["w"], set(a["elim"]), p) for a, p in zip(atoms, proved) if a["kind"] == "NEN"]
    try:
        with warnings.catch_warnings(), contextlib.redirect_stdout(io.StringIO()):
            warnings.simplefilter("ignore")
            S = set(cands) - {alt}
            tree = V.buildRemainingTreeAsLists(alt, S, wol, irv)
            nodes = flatten(tree, [], wol, irv)
            tup = V.treeListToTuple(tree)
            # the same assertions through the audit-log JSON form
            winner = rng.choice([c for c in cands if c != alt])
            asn = {}
            asj = []
            for k, (a, p) in enumerate(zip(atoms, proved)):
                asn[f"a{k}"] = {"proved": p, "winner": a["w"], "loser": a["l"]}
                if a["kind"] == "NEB":
                    asj.append({"assertion_type": "WINNER_ONLY", "winner": a["w"], "loser": a["l"], "already_eliminated": ""})
                else:
                    asj.append({"assertion_type": "IRV_ELIMINATION", "winner": a["w"], "loser": a["l"],
                                "already_eliminated": list(a["elim"])})
            log = {"Audit": {"seed": 1}, "contests": {"7": {"choice_function": "IRV", "n_winners": 1, "winner": [winner],
                                                             "candidates": list(cands), "assertions": asn,
                                                             "assertion_json": asj}}}
            candfile = {"List": [{"Id": c, "Description": f"name {c}"} for c in cands]}
            if not isinstance(cands[0], str):
                # parseAssertions concatenates identifiers with text: string identifiers only
                rec["out"] = {"nodes": nodes, "marker_count": count_markers(tup), "parsed_same": True}
                return rec
            (w, wn), nonw, wol2, irv2 = V.parseAssertions(log, candfile)
            tree2 = V.buildRemainingTreeAsLists(alt, set(cands) - {alt}, wol2, irv2)
            nodes2 = flatten(tree2, [], wol2, irv2)
            key = lambda n: (n["path"], n["pruned"], sorted(map(str, n["neb"])), sorted(map(str, n["irv"])))
            same = sorted(map(key, nodes)) == sorted(map(key, nodes2)) and w == winner and \
                sorted(c for c, _ in nonw) == sorted(c for c in cands if c != winner)
        rec["out"] = {"nodes": nodes, "marker_count": count_markers(tup), "parsed_same": bool(same)}
    except Exception as ex:
        rec["exc"] = {"type": type(ex).__name__, "site": core.exc_site(ex)}
    return rec


def run(pid, tier):
    rep = Report(pid, tier)
    core.import_repo()
    rng = random.Random(core.seed() * 104723 + 9)
    cands = ["A", "B", "C"]
    maxatoms = 4 if tier == "quick" else 5
    res = mc(cands, maxatoms)
    rep.add_tlc("MC ElimTreeMC", res, consts={"Cands": cands, "MaxAtoms": maxatoms})
    if res.error:
        raise core.MachineryError(res.error[:2000])
    if res.violated:
        rep.violation("ElimTree.tla", f"mc:{res.violated}", f"TLC: {res.violated} violated", {"cex": res.cex[:3000]})
    behs = core.beh_lines(res)
    if not behs:
        raise core.MachineryError("no assertion sets generated")
    rep.cov["exhaustive"] = True
    recs = []
    k = 0
    for b in behs:
        atoms = [dict(a, elim=sorted(a["elim"])) for a in b["atoms"]]
        for alt in cands:
            order = list(atoms)
            rng.shuffle(order)
            recs.append(run_case(f"t{k}", cands, alt, order, rng))
            k += 1
    # the smallest contest: two candidates, every set of up to 3 of the 6 possible assertions, both alternative winners
    two = ["A", "B"]
    pool2 = [{"kind": "NEB", "w": w, "l": l, "elim": []} for w in two for l in two if w != l] + \
            [{"kind": "NEN", "w": c, "l": c, "elim": list(E)} for c in two for E in ([], [x for x in two if x != c])]
    for r in range(0, 4):
        for atoms in itertools.combinations(pool2, r):
            for alt in two:
                recs.append(run_case(f"w{k}", two, alt, [dict(a) for a in atoms], rng))
                k += 1
    # beyond the bound: larger sets over 3 candidates (sufficient, redundant, inconsistent ones), and 4 candidates
    def all_atoms(cs):
        out = [{"kind": "NEB", "w": w, "l": l, "elim": []} for w in cs for l in cs if w != l]
        for c in cs:
            rest = [x for x in cs if x != c]
            for r in range(len(rest) + 1):
                for E in itertools.combinations(rest, r):
                    out.append({"kind": "NEN", "w": c, "l": c, "elim": list(E)})
        return out
    for j in range(400 if tier == "quick" else 6000):
        cs = cands if j % 2 else ["A", "B", "C", "D"]
        pool = all_atoms(cs)
        atoms = rng.sample(pool, rng.randint(0, min(len(pool), 14)))
        if rng.random() < 0.2 and atoms:
            atoms.append(dict(rng.choice(atoms)))      # a duplicate assertion
        recs.append(run_case(f"r{j}", cs, rng.choice(cs), atoms, rng))
    rejects, stats = core.validate_traces("Trace_ElimTree", recs)
    rep.add_trace_stats("Trace_ElimTree", stats)
    byid = {r["tid"]: r for r in recs}
    for tid, clauses in rejects.items():
        for cl in clauses:
            rep.violation("buildRemainingTreeAsLists", cl, f"record {tid}: clause {cl}", byid[tid])
    for r in recs:
        rep.clause_count("record", r["tid"] not in rejects)
    for r in recs[:1] + recs[-1:]:
        rep.sample(r)
    rep.assumptions += ["tags are compared as the assertions they denote, not as list positions",
                        "3 candidates: every set of <=3 (quick) / <=5 (thorough) of the 18 assertion atoms x every alternative "
                        "winner; random larger sets incl. duplicates, and 4 candidates"]
    return rep.finish()
