"""Driving Assertion / Assorter comparison-audit code on TLC-generated card lists
(spec/Comparison.tla, ComparisonMC.tla, Trace_Comparison.tla): C03, C06, C08 (scoring)."""
import warnings
from fractions import Fraction as F

from . import core
from .core import rs

TRUTHY = [True, 1, 5, "marked"]


class StubTest:
    """stands in for NonnegMean inside Assertion.set_p_values: records what it is handed"""

    def __init__(self, N):
        self.u = None
        self.N = N
        self.t = 0.5
        self.seen = None
        self.u_at_call = None

    def test(self, d):
        import numpy as np
        self.seen = np.array(d, dtype=float).copy()
        self.u_at_call = self.u
        return 1.0, np.ones(len(d))


_AUDITS = [0]


def mk_audit(style, max_cards):
    from shangrla.core.Audit import Audit
    from shangrla.core.NonnegMean import NonnegMean
    # the audit object has a card bound of its own besides its stratum's (the statements speak of the stratum's):
    # unset, equal, larger or smaller
    _AUDITS[0] += 1
    own = [None, max_cards, max_cards + 4, max(0, max_cards - 1)][_AUDITS[0] % 4]
    return Audit.from_dict({"seed": 1, "sim_seed": 1, "quantile": 0.8, "error_rate_1": 0, "error_rate_2": 0, "reps": None,
                            "max_cards": own,
                            "strata": {"s": {"max_cards": max_cards, "use_style": style, "replacement": False,
                                             "audit_type": Audit.AUDIT_TYPE.CARD_COMPARISON,
                                             "test": NonnegMean.alpha_mart, "estimator": NonnegMean.optimal_comparison,
                                             "test_kwargs": {}}}})


def kinds_for(u):
    u = F(u)
    if u == 1:
        return ["plur", "nen", "neb"]
    if u == F(3, 4):
        return ["super23"]
    if u == F(3, 2):
        return ["super13"]
    raise core.MachineryError(f"no assorter kind for u={u}")


def any_key_order(d, rng):
    """the same selections with the keys in another insertion order (exports list a ranking by candidate, not by rank)"""
    items = list(d.items())
    rng.shuffle(items)
    return dict(items)


def votes_for(kind, cls, rng):
    """a concrete vote dict (for contest 'con') whose assorter value is that of class cls"""
    t = rng.choice(TRUTHY)
    if kind == "plur":
        return {"w": [{"W": t}, {"W": t, "X": 1}], "l": [{"L": t}, {"L": t, "X": t}],
                "n": [{}, {"X": t}, {"W": t, "L": 1}, {"W": 0, "L": ""}]}[cls]
    if kind.startswith("super"):
        return {"w": [{"W": t}, {"W": t, "L": 0}], "l": [{"L": t}, {"L": t, "W": ""}],
                "n": [{}, {"W": t, "L": t}, {"W": 0}]}[cls]
    if kind == "nen":      # W vs L with Y eliminated, remaining W, L, X
        return {"w": [{"W": 1}, {"Y": 1, "W": 2, "L": 3}, {"W": 1, "X": 2}],
                "l": [{"L": 1}, {"Y": 1, "L": 2}, {"L": 1, "W": 2, "X": 3}],
                "n": [{}, {"X": 1, "W": 2}, {"Y": 1}, {"Y": 1, "X": 2, "L": 3}]}[cls]
    if kind == "neb":      # WINNER_ONLY: W first preference vs. L ranked without / ahead of W
        return {"w": [{"W": 1}, {"W": 1, "L": 2}],
                "l": [{"L": 1}, {"L": 2, "X": 1}, {"L": 1, "W": 2}, {"X": 1, "L": 2, "W": 3}],
                "n": [{}, {"X": 1}, {"X": 1, "W": 2, "L": 3}, {"X": 1, "W": 2}]}[cls]
    raise ValueError(kind)


_ROUTE = [0]


def make_assertion(kind, con):
    from shangrla.core.Audit import Assertion
    from shangrla.core.NonnegMean import NonnegMean
    kw = dict(test=NonnegMean.alpha_mart, estim=NonnegMean.fixed_alternative_mean)
    _ROUTE[0] += 1
    if _ROUTE[0] % 2 == 0:
        # the documented route: every assertion of the contest from the contest's own description
        if kind == "nen":
            con.assertion_json = [{"winner": "W", "loser": "L", "assertion_type": "IRV_ELIMINATION", "already_eliminated": ["Y"]}]
        elif kind == "neb":
            con.assertion_json = [{"winner": "W", "loser": "L", "assertion_type": "WINNER_ONLY", "already_eliminated": ""}]
        Assertion.make_all_assertions({"con": con})
        made = con.assertions
        if kind == "plur":
            con._sibling = made["W v X"]
            return made["W v L"]
        return next(iter(made.values()))
    if kind == "plur":      # the pairwise assertions of a contest are built in one call
        both = Assertion.make_plurality_assertions(contest=con, winner=["W"], loser=["L", "X"], **kw)
        con._sibling = both["W v X"]
        return both["W v L"]
    if kind.startswith("super"):
        # (the required share is the contest's; the factory's own keyword is given in some calls and left out in others)
        skw = dict(kw, share_to_win=con.share_to_win) if _ROUTE[0] % 4 == 1 else kw
        return next(iter(Assertion.make_supermajority_assertion(contest=con, winner="W", loser=["L"], **skw).values()))
    if kind == "nen":
        js = [{"winner": "W", "loser": "L", "assertion_type": "IRV_ELIMINATION", "already_eliminated": ["Y"]}]
    else:
        js = [{"winner": "W", "loser": "L", "assertion_type": "WINNER_ONLY", "already_eliminated": ""}]
    return next(iter(Assertion.make_assertions_from_json(contest=con, candidates=["W", "L", "X", "Y"],
                                                         json_assertions=js, **kw).values()))


_OBJECTS = {}


def make_decoy(kind, con):
    """another assertion of the same contest whose assorter values differ from the one under test"""
    from shangrla.core.Audit import Assertion
    from shangrla.core.NonnegMean import NonnegMean
    kw = dict(test=NonnegMean.alpha_mart, estim=NonnegMean.fixed_alternative_mean)
    if kind == "plur":
        return Assertion.make_plurality_assertions(contest=con, winner=["L"], loser=["W"], **kw)["L v W"]
    if kind.startswith("super"):
        return next(iter(Assertion.make_supermajority_assertion(contest=con, share_to_win=con.share_to_win, winner="L",
                                                                loser=["W"], **kw).values()))
    js = [{"winner": "L", "loser": "W", "assertion_type": "IRV_ELIMINATION", "already_eliminated": ["X"]}]
    return next(iter(Assertion.make_assertions_from_json(contest=con, candidates=["W", "L", "X", "Y"],
                                                         json_assertions=js, **kw).values()))


def make_contest(kind, style, audit_type, cards):
    from shangrla.core.Audit import Contest
    from shangrla.core.NonnegMean import NonnegMean
    choice = {"plur": "PLURALITY", "super23": "SUPERMAJORITY", "super13": "SUPERMAJORITY", "nen": "IRV", "neb": "IRV"}[kind]
    share = {"super23": 2 / 3, "super13": 1 / 3}.get(kind)
    return Contest.from_dict({"id": "con", "name": "con", "risk_limit": 0.05, "cards": cards, "choice_function": choice,
                              "n_winners": 1, "share_to_win": share,
                              "candidates": ["W", "L"] if kind.startswith("super") else ["W", "L", "X", "Y"],
                              "winner": ["W"], "audit_type": audit_type, "test": NonnegMean.alpha_mart,
                              "estim": NonnegMean.fixed_alternative_mean, "use_style": style, "g": 0.1})


def build_cards(kind, cards, rng, snum=lambda k: k + 1):
    """CVR and MVR objects for a list of abstract cards (positions are sample-number ranks)"""
    import numpy as np
    from shangrla.core.Audit import CVR
    cvrs, mvrs = [], []
    # a tally pool's label is any hashable value: strings, numbers, or - in one file - a number and the string that
    # prints the same (they are different pools)
    labels = rng.choice([{}, {}, {}, {"P1": 1, "P2": "1"}, {"P1": 7, "P2": 8}])
    build_cards.labels = labels
    for k, c in enumerate(cards):
        votes = {}
        if c["cs"] != "x":
            votes["con"] = {} if c["ph"] else any_key_order(rng.choice(votes_for(kind, c["cs"], rng)), rng)
        if not c["ph"] and rng.random() < 0.4:
            votes["other"] = {"Z": 1}
        pooled = c["pool"] != "none"
        cvrs.append(CVR(id=f"card{k}", votes=votes, phantom=(rng.choice([True, np.bool_(True), 1]) if c["ph"] else
                                                             rng.choice([False, False, 0])),
                        tally_pool=(labels.get(c["pool"], c["pool"]) if pooled else rng.choice([None, "Q"])),
                        pool=(rng.choice([True, np.bool_(True)]) if pooled else False), sample_num=snum(k)))
        if c["ms"] == "u":      # the flag is not always the literal True (numpy booleans from arrays, 1 from files)
            mvrs.append(CVR(id=f"card{k}", votes={}, phantom=rng.choice([True, True, np.bool_(True), 1])))
        else:
            mv = {}
            if c["ms"] != "x":
                mv["con"] = any_key_order(rng.choice(votes_for(kind, c["ms"], rng)), rng)
            if rng.random() < 0.3:
                mv["other"] = {"Z": 1}
            mvrs.append(CVR(id=f"card{k}", votes=mv, phantom=False))
    return cvrs, mvrs


def run_case(tid, kind, u, style, cards, thr, rng, polling=False):
    """one record for Trace_Comparison"""
    import numpy as np
    from shangrla.core.Audit import Assertion, Audit, CVR
    excs = []

    def guard(field, fn, default="exc"):
        try:
            with warnings.catch_warnings():
                warnings.simplefilter("ignore")
                return fn()
        except Exception as ex:
            excs.append({"field": field, "type": type(ex).__name__, "site": core.exc_site(ex)})
            return default
    pooled = any(c["pool"] != "none" for c in cards)
    audit_type = Audit.AUDIT_TYPE.POLLING if polling else (Audit.AUDIT_TYPE.ONEAUDIT if pooled
                                                           else Audit.AUDIT_TYPE.CARD_COMPARISON)
    rec = {"tid": tid, "kind": kind, "u": rs(u), "style": style, "audit": audit_type, "cards": cards, "thr": thr,
           "excs": excs}
    # sample numbers are small consecutive integers in some cases and 200-bit integers a few units apart in others
    base, stride = rng.choice([(0, 1), (0, 1), (2 ** 200 + 2 ** 147 + rng.randrange(10 ** 6), rng.choice([1, 5]))])
    snum = lambda k: base + stride * (k + 1)
    cvrs, mvrs = build_cards(kind, cards, rng, snum)
    if pooled and not polling and rng.random() < 0.4:
        # ONEAudit padding first: every pooled CVR of a pool lists every contest some CVR of that pool lists
        rec["padded"] = True
        guard("add_pool_contests", lambda: CVR.add_pool_contests(cvrs, CVR.pool_contests(cvrs)))
    audit = mk_audit(style, len(cards))
    # Contest / Assertion objects live as long as an audit: the same objects serve case after case (margin, pool
    # means, threshold and test are set anew each time, as a user re-running an audit would), and a second
    # assertion of the same contest (a decoy with the opposite winner / loser) has its pool means set as well
    key = (kind, style, audit_type)
    if key not in _OBJECTS or rng.random() < 0.1:
        con0 = make_contest(kind, style, audit_type, len(cards))
        a0 = guard("make_assertion", lambda: make_assertion(kind, con0))
        if a0 == "exc":
            return rec
        d0 = guard("make_assertion", lambda: make_decoy(kind, con0))
        _OBJECTS[key] = (con0, a0, None if d0 == "exc" else d0)
    con, asn, decoy = _OBJECTS[key]
    con.cards = len(cards)
    con.sample_threshold = None
    con.assertions = {"a": asn}
    under = [k for k in range(len(cards)) if (not style) or cvrs[k].has_contest("con")]
    out = {}
    if not polling:
        sib = getattr(con, "_sibling", None)
        if sib is not None and rng.random() < 0.5:
            # the documented route: every assertion of the contest gets its margin and its test's bound in one sweep
            con.assertions = {"a": asn, "b": sib}
            guard("set_margin_from_cvrs", lambda: Assertion.set_all_margins_from_cvrs(audit, {"con": con}, cvrs))
            out["u_after_margins"] = rs(asn.test.u) if getattr(asn.test, "u", None) is not None else "exc"
            con.assertions = {"a": asn}
        else:
            guard("set_margin_from_cvrs", lambda: asn.set_margin_from_cvrs(audit, cvrs))
            out["u_after_margins"] = rs(asn.test.u) if getattr(asn.test, "u", None) is not None else "exc"
        asn.test = StubTest(len(cards))
        out["margin"] = rs(asn.margin) if asn.margin is not None else "exc"
        if pooled:
            guard("set_tally_pool_means", lambda: asn.assorter.set_tally_pool_means(cvr_list=cvrs, use_style=style))
            if decoy is not None:
                guard("set_tally_pool_means", lambda: decoy.assorter.set_tally_pool_means(cvr_list=cvrs, use_style=style))
            pm = asn.assorter.tally_pool_means or {}
            inv = {(type(v).__name__, v): k_ for k_, v in getattr(build_cards, "labels", {}).items()}
            out["pool_means"] = {inv.get((type(p).__name__, p), str(p)): rs(v) for p, v in pm.items()}
            for p in {c["pool"] for c in cards if c["pool"] != "none"}:
                out["pool_means"].setdefault(p, "exc")
        else:
            out["pool_means"] = {}
        B, Bunf = [], []
        unf = CVR(id="unf", votes={}, phantom=True)
        for k in range(len(cards)):
            if k in under:
                B.append(guard("overstatement_assorter",
                               lambda: rs(asn.overstatement_assorter(mvrs[k], cvrs[k], use_style=style))))
                Bunf.append(guard("overstatement_assorter",
                                  lambda: rs(asn.overstatement_assorter(unf, cvrs[k], use_style=style))))
            else:
                B.append("na")
                Bunf.append("na")
        out["B"], out["Bunf"] = B, Bunf
        # the contest's threshold is the sample number of the card at position thr (0 = before every card)
        n_upto = sum(1 for k in range(thr) if cvrs[k].has_contest("con"))
        if style and n_upto > 0 and rng.random() < 0.4:
            # the threshold as the sampling step itself leaves it: the first n_upto cards listing the contest
            con.sample_size = n_upto
            if rng.random() < 0.5:
                # drawn together with a second contest that every card lists and that needs them all: cards drawn for
                # it after this contest's sample is complete are not this contest's
                import copy as _copy
                big = _copy.copy(con)
                big.id, big.sample_size, big.sample_threshold = "zbig", len(cvrs), None
                for cv in cvrs:
                    cv.votes["zbig"] = {}
                try:
                    guard("consistent_sampling", lambda: core.with_time_limit(10, CVR.consistent_sampling, cvrs, {"con": con, "zbig": big}))
                finally:
                    for cv in cvrs:
                        cv.votes.pop("zbig", None)
            else:
                guard("consistent_sampling", lambda: core.with_time_limit(10, CVR.consistent_sampling, cvrs, {"con": con}))
            rec["thr_route"] = "sampling"
        else:
            con.sample_threshold = snum(thr - 1) if thr > 0 else 0
    else:
        asn.test = StubTest(len(cards))
        asn.margin = 0.1

    def data():
        d, uu = asn.mvrs_to_data(mvrs, cvrs)
        return [rs(v) for v in np.atleast_1d(d)], rs(uu)
    dd = guard("mvrs_to_data", data, ("exc", "exc"))
    out["data"], out["u_ret"] = (dd if dd != ("exc", "exc") else ([], "exc"))

    def setp():
        Assertion.set_p_values({"con": con}, mvrs, cvrs)
        st = asn.test
        return [rs(v) for v in st.seen], rs(st.u_at_call)
    sp = guard("set_p_values", setp, ("exc", "exc"))
    out["seen"], out["u_installed"] = (sp if sp != ("exc", "exc") else ([], "exc"))
    rec["out"] = out
    uniq = {(e["field"], e["type"], e["site"]): e for e in excs}
    rec["excs"] = list(uniq.values())
    return rec
