"""C18: merging records of one card (spec/Merge.tla, MergeMC.tla, Trace_Merge.tla) and the RAIRE-format reader."""
import random
import warnings

from . import core
from .core import Report


def mc(ids, cons, pools, maxrecs, emit=True):
    cfg = f"""CONSTANTS
  IdSet = {{{", ".join('"%s"' % x for x in ids)}}}
  ConSet = {{{", ".join('"%s"' % x for x in cons)}}}
  Pools = {{{", ".join('"%s"' % x for x in pools)}}}
  MaxRecs = {maxrecs}
INIT Init
NEXT Next
CHECK_DEADLOCK FALSE
INVARIANT ErrorIffConflict
INVARIANT OnePerIdInFirstAppearanceOrder
INVARIANT ContestsAreUnionLaterWins
INVARIANT FlagsMeaningful
INVARIANT FoldAgrees
""" + ("INVARIANT Emit\n" if emit else "")
    return core.run_tlc("MergeMC", cfg, workers=16, timeout=3400, heap="8g", coverage=True)


def flag(v):
    return "true" if v is True else "false" if v is False else "non-boolean"


def run_case(tid, recs):
    from shangrla.core.Audit import CVR
    rec = {"kind": "merge", "tid": tid, "recs": recs, "error": False}
    cvrs = []
    # tally-pool labels as they occur in practice include falsy ones: the label "Z" stands for the integer 0
    label = {"none": None, "Z": 0}
    unlabel = lambda v: "none" if v is None else ("Z" if (v == 0 and v is not False and not isinstance(v, str))
                                                    else str(v)[5:] if str(v).startswith("pool-") else str(v))
    for pos, r in enumerate(recs, start=1):
        # each record's votes in a contest carry a candidate only that record has, so a merge that mixes two
        # records' selections inside one contest is visible
        tp = label.get(r["tpool"], r["tpool"])
        if isinstance(tp, str):
            tp = "".join(["pool-", tp])          # equal labels, but a new string object for every record
        kw = dict(id=r["id"], phantom=r["phantom"], pool=r["pool"], tally_pool=tp)
        if r["cons"]:
            kw["votes"] = {c: {"src": pos, f"only{pos}": 1} for c in r["cons"]}
        cvrs.append(CVR(**kw))          # a record without contests is built the way callers do: no votes argument at all
    try:
        with warnings.catch_warnings():
            warnings.simplefilter("ignore")
            out = CVR.merge_cvrs(cvrs)
        def src(v):      # the position of the record whose selections these are; 0 if they are a mixture
            p = int(v.get("src", 0))
            return p if v == {"src": p, f"only{p}": 1} else 0
        rec["out"] = [{"id": str(c.id), "votes": {con: src(v) for con, v in c.votes.items()},
                       "phantom": flag(c.phantom), "pool": flag(c.pool), "tpool": unlabel(c.tally_pool)} for c in out]
    except ValueError:
        rec["error"] = True
    except Exception as ex:
        rec["exc"] = {"type": type(ex).__name__, "site": core.exc_site(ex)}
    return rec


def run(pid, tier):
    from . import check_raire
    rep = Report(pid, tier)
    core.import_repo()
    rng = random.Random(core.seed() * 9973 + 13)
    shapes = [(["a", "b"], 2), (["a"], 3)] if tier == "quick" else [(["a", "b"], 3)]
    behs = []
    for ids, maxrecs in shapes:
        res = mc(ids, ["c1", "c2"], ["P", "Z"], maxrecs)
        rep.add_tlc(f"MC MergeMC ids={ids} maxrecs={maxrecs}", res, consts={"ids": ids, "MaxRecs": maxrecs})
        if res.error:
            raise core.MachineryError(res.error[:2000])
        if res.violated:
            rep.violation("Merge.tla", f"mc:{res.violated}", f"TLC: {res.violated} violated", {"cex": res.cex[:3000]})
        behs += core.beh_lines(res)
    if not behs:
        raise core.MachineryError("no merge inputs generated")
    rep.cov["exhaustive"] = True
    rep.cov["inputs_generated"] = len(behs)
    cap = 30000 if tier == "quick" else 250000
    if len(behs) > cap:
        rng.shuffle(behs)
        behs = behs[:cap]
    recs = [run_case(f"m{k}", [dict(r, cons=sorted(r["cons"])) for r in b]) for k, b in enumerate(behs)]
    # beyond the bound: longer lists, more ids
    for k in range(300 if tier == "quick" else 5000):
        n = rng.randint(3, 9)
        lst = [{"id": rng.choice("abcd"), "cons": sorted(c for c in ("c1", "c2", "c3") if rng.random() < 0.5),
                "phantom": rng.random() < 0.4, "pool": rng.random() < 0.3,
                "tpool": rng.choice(["none", "none", "P", "Z", "Q"])} for _ in range(n)]
        recs.append(run_case(f"r{k}", lst))
    rd = check_raire.reader_records(rng, 150 if tier == "quick" else 1500, repeats=True)
    for r in rd:
        r.pop("raire_reader", None)
    recs += rd
    rejects, stats = core.validate_traces("Trace_Merge", recs)
    rep.add_trace_stats("Trace_Merge", stats)
    byid = {r["tid"]: r for r in recs}
    for tid, clauses in rejects.items():
        r = byid[tid]
        for cl in clauses:
            rep.violation("CVR.merge_cvrs" if r["kind"] == "merge" else "CVR.from_raire", cl, f"record {tid}: clause {cl}", r)
    for r in recs:
        rep.clause_count(r["kind"], r["tid"] not in rejects)
    for r in recs[:1] + recs[len(recs) // 2: len(recs) // 2 + 1]:
        rep.sample(r)
    rep.assumptions += ["a record's votes in a contest are identified by the record's position, so 'the later record wins' is observable",
                        "pool is projected as true / false / non-boolean"]
    return rep.finish()
