"""C17: manifests and card lookup for both vendors (spec/Manifest.tla, ManifestMC.tla, Trace_Manifest.tla)."""
import random
import warnings

from . import core
from .core import Report


def mc(maxb, maxsize, slack, emit=True):
    cfg = f"""CONSTANTS
  MaxBatches = {maxb}
  MaxSize = {maxsize}
  Slack = {slack}
INIT Init
NEXT Next
CHECK_DEADLOCK FALSE
INVARIANT PrepAccounts
INVARIANT RefusesIff
INVARIANT Bijection
INVARIANT EmptyBatchesNeverHit
""" + ("INVARIANT Emit\n" if emit else "")
    return core.run_tlc("ManifestMC", cfg, workers=16, timeout=3000, heap="6g", coverage=True)


def run_manifest(tid, vendor, sizes, bound, ncvrs, rng, permute):
    import numpy as np
    import pandas as pd
    from shangrla.formats.Dominion import Dominion
    from shangrla.formats.Hart import Hart
    rec = {"kind": "manifest", "tid": tid, "vendor": vendor, "sizes": sizes, "bound": bound, "ncvrs": ncvrs, "refused": False,
           "sample": []}
    nb = len(sizes)
    if vendor == "Dominion":
        df = pd.DataFrame({"Tray #": [f"tray{k}" for k in range(nb)], "Tabulator Number": ["7"] * nb,
                           "Batch Number": [k + 1 for k in range(nb)], "Total Ballots": list(sizes),
                           "VBMCart.Cart number": [f"cart{k}" for k in range(nb)]})
        V, sizecol, tabcol, batchcol = Dominion, "Total Ballots", "Tabulator Number", "Batch Number"
    else:
        df = pd.DataFrame({"Container": [f"box{k}" for k in range(nb)], "Tabulator": ["7"] * nb,
                           "Batch Name": [k + 1 for k in range(nb)], "Number of Ballots": list(sizes)})
        V, sizecol, tabcol, batchcol = Hart, "Number of Ballots", "Tabulator", "Batch Name"
    # the frame's row labels are whatever the caller's tooling left (default, 1-based, rows kept from a larger file);
    # it may carry a running-total column from an earlier preparation of its parts
    shape = rng.randrange(4)
    if shape == 1:
        df.index = range(1, nb + 1)
    elif shape == 2:
        df.index = [0] + list(range(2, nb + 1))
    if rng.random() < 0.25:
        half = nb // 2
        df["cum_cards"] = list(np.cumsum(list(sizes[:half]))) + list(np.cumsum(list(sizes[half:])))
    try:
        with warnings.catch_warnings():
            warnings.simplefilter("ignore")
            try:
                man, mcards, phantoms = V.prep_manifest(df, bound, ncvrs)
            except AssertionError:
                rec["refused"] = True
                return rec
            psizes = [int(float(x)) for x in man[sizecol]]
            total = sum(psizes)
            valid = list(range(1, total + 1)) if vendor == "Dominion" else list(range(total))
            if permute:
                rng.shuffle(valid)
            rec["sample"] = valid
            # sample numbers arrive as Python ints, or as signed / unsigned numpy integers
            form = [lambda v: v, lambda v: np.array(v, dtype=np.int64), lambda v: np.array(v, dtype=np.uint64)][len(valid) % 3]
            cards, sample_order, mvr_ph = V.sample_from_manifest(man, form(valid))
        # recover, in selection order, the card each number was mapped to
        by_order = sorted(sample_order.items(), key=lambda kv: kv[1]["selection_order"])
        rows = {}
        for k in range(len(man)):
            rows[(str(man.iloc[k][tabcol]), str(man.iloc[k][batchcol]))] = k + 1
        out_cards = []
        for cid, so in by_order:
            tab, batch, pos = cid.rsplit("-", 2)
            out_cards.append({"id": cid, "batch": rows.get((tab, batch), 0), "pos": int(pos), "order": int(so["selection_order"])})
        # the prepared manifest prepared once more (same bound, or a revised larger one): it is a manifest like any other
        again = {"done": False, "bound": bound, "sizes": [], "manifest_cards": 0, "phantoms": 0}
        # (Dominion only: Hart's prepared manifest holds its counts as text and is not an input of prep_manifest)
        if vendor == "Dominion" and rng.random() < 0.4:
            b2 = bound + rng.choice([0, 0, 3])
            with warnings.catch_warnings():
                warnings.simplefilter("ignore")
                man2, mc2, ph2 = V.prep_manifest(man, b2, ncvrs)
            again = {"done": True, "bound": b2, "sizes": [int(float(x)) for x in man2[sizecol]], "manifest_cards": int(mc2),
                     "phantoms": int(ph2)}
        rec["out"] = {"prepared_sizes": psizes, "manifest_cards": int(mcards), "phantoms": int(phantoms), "again": again,
                      "cum": [int(x) for x in man["cum_cards"]], "cards": out_cards,
                      "phantom_mvrs": [str(m.id) for m in mvr_ph],
                      "phantom_mvrs_ok": all(m.phantom is True and m.votes == {} for m in mvr_ph)}
    except Exception as ex:
        rec["exc"] = {"type": type(ex).__name__, "site": core.exc_site(ex)}
    return rec


def run_cvrs(tid, vendor, n, rng):
    import numpy as np
    import pandas as pd
    from shangrla.core.Audit import CVR
    from shangrla.formats.Dominion import Dominion
    from shangrla.formats.Hart import Hart
    phantom = [rng.random() < 0.3 for _ in range(n)]
    if vendor == "Dominion":
        ids = [(f"phantom-1-{k}" if ph else f"7-{1 + k % 2}-{k}") for k, ph in enumerate(phantom)]
        man = pd.DataFrame({"Tray #": ["t1", "t2"], "Tabulator Number": ["7", "7"], "Batch Number": ["1", "2"],
                            "Total Ballots": ["50", "50"], "VBMCart.Cart number": ["c1", "c2"]})
        V = Dominion
    else:
        ids = [(f"phantom-1-{k}" if ph else f"{1 + k % 2}_{k}") for k, ph in enumerate(phantom)]
        man = pd.DataFrame({"Container": ["b1", "b2"], "Tabulator": ["7", "7"], "Batch Name": ["1", "2"],
                            "Number of Ballots": ["50", "50"]})
        V = Hart
    # the position of a card in its physical batch is not the record number in its identifier (and may be unset)
    cvrs = [CVR(id=i, votes={"c": {"A": 1}}, phantom=ph, card_in_batch=rng.choice([k, k + 100, None]))
            for k, (i, ph) in enumerate(zip(ids, phantom))]
    sample = rng.sample(range(n), rng.randint(0, n))
    rec = {"kind": "cvrs", "tid": tid, "vendor": vendor, "ids": ids, "phantom": phantom, "sample": sample}
    # where each real batch is to be found (Hart: its tabulator; Dominion: cart and tray), and each record's batch
    rec["rows"] = [{"batch": "1", "loc": "7" if vendor == "Hart" else "c1/t1"}, {"batch": "2", "loc": "7" if vendor == "Hart" else "c2/t2"}]
    rec["batch_of"] = ["phantom" if ph else str(1 + k % 2) for k, ph in enumerate(phantom)]
    try:
        with warnings.catch_warnings():
            warnings.simplefilter("ignore")
            if rng.random() < 0.5:
                # the manifest as prepared for an audit with more cards than it lists: a phantom batch has been appended
                sizecol = "Total Ballots" if vendor == "Dominion" else "Number of Ballots"
                man[sizecol] = [50, 50]
                man, _, _ = V.prep_manifest(man, 100 + rng.choice([1, 7]), n)
            cards, sample_order, cvr_sample, mvr_ph = V.sample_from_cvrs(cvrs, man, np.array(sample, dtype=int))
        by_order = [cid for cid, so in sorted(sample_order.items(), key=lambda kv: kv[1]["selection_order"])]
        norm = (lambda x: x.replace("_", "-")) if vendor == "Hart" else (lambda x: x)
        by_id = {str(c[-1]): c for c in cards}
        locs = []
        for k in sample:
            c = by_id.get(ids[k])
            locs.append("missing" if c is None else "" if phantom[k] else (str(c[0]) if vendor == "Hart" else f"{c[0]}/{c[1]}"))
        rec["out"] = {"cvr_sample_ids": [str(c.id) for c in cvr_sample], "order_ids": [str(x) for x in by_order], "locs": locs,
                      "phantom_mvr_ids": [str(m.id) for m in mvr_ph],
                      "phantom_mvrs_ok": all(m.phantom is True and m.votes == {} for m in mvr_ph)}
    except Exception as ex:
        rec["exc"] = {"type": type(ex).__name__, "site": core.exc_site(ex)}
    return rec


def run(pid, tier):
    rep = Report(pid, tier)
    core.import_repo()
    rng = random.Random(core.seed() * 4409 + 5)
    manifest_part(rep, tier, rng)
    return rep.finish()


def manifest_part(rep, tier, rng, want=None):
    """want: clause patterns to report (None = all); used by C08 for the phantom batch / phantom manual records"""
    import fnmatch
    maxb = 3 if tier == "quick" else 4
    res = mc(maxb, 3, 3)
    rep.add_tlc("MC ManifestMC", res, consts={"MaxBatches": maxb, "MaxSize": 3, "Slack": 3})
    if res.error:
        raise core.MachineryError(res.error[:2000])
    if res.violated:
        rep.violation("Manifest.tla", f"mc:{res.violated}", f"TLC: {res.violated} violated", {"cex": res.cex[:3000]})
    behs = core.beh_lines(res)
    if not behs:
        raise core.MachineryError("no manifests generated")
    rep.cov["exhaustive"] = True
    recs = []
    k = 0
    for b in behs:
        for vendor in ("Dominion", "Hart"):
            for permute in ((False, True) if tier == "thorough" else (bool(k % 2),)):
                recs.append(run_manifest(f"m{k}", vendor, b["sizes"], b["bound"], b["ncvrs"], rng, permute))
                k += 1
    for j in range(150 if tier == "quick" else 2500):     # beyond the bound: more and larger batches
        sizes = [rng.choice([0, 0, 1, 2, 5, 9, 17]) for _ in range(rng.randint(1, 9))]
        tot = sum(sizes)
        recs.append(run_manifest(f"r{j}", rng.choice(["Dominion", "Hart"]), sizes, tot + rng.choice([-1, 0, 0, 1, 4, 30]),
                                 max(0, tot + rng.choice([-3, 0, 0, 1])), rng, True))
    for j in range(150 if tier == "quick" else 2500):
        recs.append(run_cvrs(f"c{j}", rng.choice(["Dominion", "Hart"]), rng.randint(1, 12), rng))
    rejects, stats = core.validate_traces("Trace_Manifest", recs)
    rep.add_trace_stats("Trace_Manifest", stats)
    byid = {r["tid"]: r for r in recs}
    for tid, clauses in rejects.items():
        r = byid[tid]
        for cl in clauses:
            if want is not None and not any(fnmatch.fnmatchcase(cl, w) for w in want):
                continue
            rep.violation(f"{r['vendor']}.{'manifest' if r['kind'] == 'manifest' else 'sample_from_cvrs'}", cl,
                          f"record {tid}: clause {cl}", r)
    for r in recs:
        rep.clause_count(r["kind"], r["tid"] not in rejects)
    for r in recs[:1] + recs[-1:]:
        rep.sample(r)
    rep.assumptions += ["batch rows are identified through distinct batch numbers in the card identifiers",
                        "every valid sample number is looked up (identity order or a seeded permutation)"]
