"""C07 (consistent sampling) and C10 (escalation extends the evidence):
spec/Sampling.tla, SamplingMC.tla, Trace_Sampling.tla."""
import fnmatch
import random
import warnings

from . import core
from .core import Report, rs

CONS2 = ["c1", "c2"]
CLAUSES = {
    "C07": ["c07:*", "indices", "thr", "sampled", "data", "crash*", "exc:*"],     # judged on from-scratch rounds
    "C10": ["c10:*", "indices", "thr", "sampled", "data", "crash*", "exc:*"],
}
MC_INV = {
    "C07": ["SelIsUnionOfFirst", "ThresholdIsNth", "DataIsFirstN", "NeverCrashesFromScratch", "WalkAgrees"],
    "C10": ["Extends", "NoCrash", "WalkAgrees"],
}


def mc(cons, ncards, rounds, variants, invariants, emit, workers=16):
    cfg = f"""CONSTANTS
  Cons = {{{", ".join('"%s"' % c for c in cons)}}}
  NCards = {ncards}
  MaxRounds = {rounds}
  Variants = {{{", ".join('"%s"' % v for v in variants)}}}
INIT Init
NEXT Next
CHECK_DEADLOCK FALSE
""" + "".join(f"INVARIANT {i}\n" for i in invariants) + ("INVARIANT Emit\n" if emit else "")
    return core.run_tlc("SamplingMC", cfg, workers=workers, timeout=3400, heap="8g", coverage=True)


def run_mc_collect(rep, name, cons, ncards, rounds, variants, invariants, emit, site):
    """run TLC; a violated invariant is recorded, dropped, and the run repeated so the others are still checked"""
    invs = list(invariants)
    while True:
        res = mc(cons, ncards, rounds, variants, invs, emit)
        rep.add_tlc(name, res, consts={"Cons": cons, "NCards": ncards, "MaxRounds": rounds, "Variants": variants})
        if res.error:
            raise core.MachineryError(res.error[:2000])
        if not res.violated:
            core.require_actions(res, ["Next", "Step", "Finish"], name)
        if res.violated:
            rep.violation(site, f"mc:{res.violated}", f"TLC: {res.violated} violated in SamplingMC ({name})",
                          {"counterexample": res.cex[:5000]})
            invs.remove(res.violated)
            continue
        return res


def replay(tid, cons, styles_by_rank, rounds, rng, variant_override=None):
    """one audit history against the real code; returns event records (init + one per round)"""
    import numpy as np
    import pandas as pd
    from cryptorandom.cryptorandom import SHA256
    from shangrla.core.Audit import Assertion, Assorter, Audit, Contest, CVR
    from shangrla.core.NonnegMean import NonnegMean
    from shangrla.formats.Dominion import Dominion
    n = len(styles_by_rank)
    perm = list(range(n))
    if rng.random() < 0.7:
        rng.shuffle(perm)            # perm[r] = list position of the card of rank r+1
    styles = [None] * n
    for r, pos in enumerate(perm):
        styles[pos] = sorted(styles_by_rank[r])
    # sample numbers: 256-bit integers as the hash gives them, or small ones starting at 0 (assigned by enumeration)
    base, stride = (2 ** 200 + rng.randrange(10 ** 6), 7) if rng.random() < 0.7 else (-1, 1)
    rank_of_pos = {pos: r + 1 for r, pos in enumerate(perm)}

    def mk_cards(variant_votes):
        out = []
        for pos in range(n):
            # the CVR's value identifies the card (0.5 + (pos+1)/256); what the manual record shows is chosen below
            votes = {c: {"v": 0.5 + (pos + 1) / 256, "junk": rng.random() if variant_votes else 1} for c in styles[pos]}
            if variant_votes and rng.random() < 0.5:
                votes["unaudited"] = {"x": 1}
            blank = variant_votes and rng.random() < 0.3
            if blank:           # listed contests with no selections at all, as blank cards and style-aware phantoms have
                votes = {c: {} for c in votes}
            # (a card may carry a sampling probability from an earlier estimate - also 0: not an input of the selection)
            out.append(CVR(id=f"1-1-{pos}" if not variant_votes else f"9-9-{pos}x", votes=votes,
                           p=(rng.choice([None, 0, 0, 0.5]) if variant_votes else None),
                           phantom=(blank and rng.random() < 0.5), card_in_batch=pos,
                           sample_num=base + stride * rank_of_pos[pos]))
        return out
    cvrs = mk_cards(False)
    cvrs_alt = mk_cards(True)
    # sample numbers: a deterministic function of the seed and the position only
    seed = rng.randrange(10 ** 9)
    la, lb = mk_cards(False), mk_cards(True)
    CVR.assign_sample_nums(la, SHA256(seed))
    CVR.assign_sample_nums(lb, SHA256(seed))
    na = [str(c.sample_num) for c in la]
    nb = [str(c.sample_num) for c in lb]
    CVR.assign_sample_nums(la, SHA256(seed))
    nagain = [str(c.sample_num) for c in la]
    # cards that never carried a sample number, same seed: the numbers depend on seed and position only
    lf = [CVR(id=f"f{pos}", votes={}) for pos in range(n)]
    CVR.assign_sample_nums(lf, SHA256(seed))
    nfresh = [str(c.sample_num) for c in lf]
    recs = [{"tid": f"{tid}:0", "walk": tid, "act": "init", "cons": cons, "styles": styles, "order": perm,
             "nums_a": na, "nums_b": nb, "nums_again": nagain, "nums_fresh": nfresh}]

    # a third of the audits are of contests as small as their cards (the last round can be a full hand count)
    census = rng.random() < 0.34
    avail = {c: sum(1 for st in styles if c in st) for c in cons}

    def mk_contests():
        d = {}
        for c in cons:
            ncards = max(1, avail[c]) if census else 200
            con = Contest.from_dict({"id": c, "name": c, "risk_limit": 0.5, "cards": ncards, "choice_function": "PLURALITY",
                                     "n_winners": 1, "candidates": ["A", "B"], "winner": ["A"],
                                     "audit_type": Audit.AUDIT_TYPE.CARD_COMPARISON, "use_style": True,
                                     "sample_size": 0})
            tst = NonnegMean(**test_cfgs[c], u=rng.choice([4 / 3, 1]), N=ncards, t=0.5)   # set_p_values installs 4/3
            asn = Assertion(contest=con, winner="A", loser="B",
                            assorter=Assorter(contest=con, assort=lambda cv, cid=c: cv.votes[cid]["v"], upper_bound=1),
                            margin=0.5, test=tst, p_value=1, p_history=[], proved=False)
            con.assertions = {"A v B": asn}
            d[c] = con
        return d
    # each contest's assertion is tested with a seed-chosen real test (the risk must not rise whatever the test)
    choices = [dict(test=NonnegMean.alpha_mart, estim=NonnegMean.fixed_alternative_mean, eta=0.9),
               dict(test=NonnegMean.alpha_mart, estim=NonnegMean.shrink_trunc, eta=0.9, d=10, f=0.01, c=0.5),
               dict(test=NonnegMean.alpha_mart, estim=NonnegMean.shrink_trunc, eta=0.75, d=2, f=0.5, c=0.25),
               dict(test=NonnegMean.betting_mart, bet=NonnegMean.agrapa, lam=0.5),
               dict(test=NonnegMean.betting_mart, bet=NonnegMean.fixed_bet, lam=0.7)]
    test_cfgs = {c: rng.choice(choices) for c in cons}
    contests = mk_contests()
    contests_alt = mk_contests()
    manifest = pd.DataFrame({"Tray #": ["1"], "Tabulator Number": ["1"], "Batch Number": ["1"], "Total Ballots": [n],
                             "VBMCart.Cart number": ["1"]})
    # what the manual record of each card shows: agrees (value 1/2), a large overstatement (1/4), lacks the contest,
    # or the card could not be found (phantom record) - the last two score 0
    kind_of = {pos: rng.choice(["ok", "ok", "ok", "low", "missing", "unfound"]) for pos in range(n)}

    def mk_mvr(cv):
        pos = int(cv.id.split("-")[2])
        k = kind_of[pos]
        if k == "unfound":
            return CVR(id=cv.id, votes={}, phantom=True)
        if k == "missing":
            return CVR(id=cv.id, votes={"other": {"z": 1}})
        return CVR(id=cv.id, votes={c: {"v": (0.5 if k == "ok" else 0.25)} for c in cv.votes})

    def decode(b):         # overstatement assorter value (1 - (cvr - mvr))/(3/2): cvr - mvr = (pos+1)/256 + {0, 1/4, 1/2}
        diff = 1 - b * 1.5
        off = 0.5 if diff > 0.5 else (0.25 if diff > 0.25 else 0.0)
        return int(round((diff - off) * 256)) - 1
    prev = None
    prev_alt = None
    last_sizes = {}
    stale_thr = {c: rng.choice([None, None, base + stride * (n + 5), base + stride * max(1, n // 2)]) for c in cons}
    for step, rd in enumerate(rounds, start=1):
        variant = variant_override(step, rd["variant"]) if variant_override else rd["variant"]
        sizes = {c: int(rd["sizes"][c]) for c in cons}
        e = {"tid": f"{tid}:{step}", "walk": tid, "act": "round", "variant": variant, "sizes": sizes}
        try:
            with warnings.catch_warnings():
                warnings.simplefilter("ignore")
                for c in cons:
                    # a Contest object may have served an earlier draw (another seed, another card list, a restored
                    # audit): until it has cards of its own in this audit its threshold is whatever that left behind
                    # (only ahead of a from-scratch draw, which writes the threshold of every contest that gets cards;
                    # a continuation takes thresholds as part of the state it continues from)
                    if sizes[c] > 0 and last_sizes.get(c, 0) == 0 and stale_thr.get(c) is not None \
                            and (variant == "redraw" or prev is None):
                        contests[c].sample_threshold = stale_thr[c]
                    contests[c].sample_size = sizes[c]
                    contests_alt[c].sample_size = sizes[c]
                    last_sizes[c] = sizes[c]
                if variant == "redraw" or prev is None:
                    idx = core.with_time_limit(10, CVR.consistent_sampling, cvrs, contests)
                    idx_alt = core.with_time_limit(10, CVR.consistent_sampling, cvrs_alt, contests_alt)
                else:
                    idx = core.with_time_limit(10, CVR.consistent_sampling, cvrs, contests, list(prev))
                    idx_alt = core.with_time_limit(10, CVR.consistent_sampling, cvrs_alt, contests_alt, list(prev_alt))
                idx = [int(v) for v in idx]
                idx_alt = [int(v) for v in idx_alt]
                prev, prev_alt = idx, idx_alt
                cards, sample_order, cvr_sample, mvr_ph = Dominion.sample_from_cvrs(cvrs, manifest, np.array(idx, dtype=int))
                mvr_sample = [mk_mvr(cv) for cv in cvr_sample]
                if rng.random() < 0.3:     # both lists in shelf (card id) order, paired but not in selection order
                    mvr_sample.sort(key=lambda c_: str(c_.id))
                    cvr_sample.sort(key=lambda c_: str(c_.id))
                else:
                    rng.shuffle(mvr_sample)
                CVR.prep_comparison_sample(mvr_sample, cvr_sample, sample_order)
                data = {}
                for c in cons:
                    d, u = contests[c].assertions["A v B"].mvrs_to_data(mvr_sample, cvr_sample)
                    data[c] = [decode(float(x)) for x in d]
                # a test is only defined on a non-empty sample (C11's domain): contests without data keep their state
                live = {c: contests[c] for c in cons if data[c]}
                if live:
                    Assertion.set_p_values(live, mvr_sample, cvr_sample)

                def rank_of_thr(t):
                    if t is None:
                        return 0
                    return (int(t) - base) // stride
                e["out"] = {"indices": idx, "indices_other_votes": idx_alt,
                            "thr": {c: rank_of_thr(contests[c].sample_threshold) for c in cons},
                            "sampled": [k for k, cv in enumerate(cvrs) if cv.sampled],
                            "data": data,
                            "p": {c: rs(contests[c].assertions["A v B"].p_value) for c in cons},
                            "proved": {c: bool(contests[c].assertions["A v B"].proved) for c in cons}}
        except core.CaseTimeout:
            e["exc"] = {"type": "Timeout", "site": "Audit.py:consistent_sampling"}
        except Exception as ex:
            e["exc"] = {"type": type(ex).__name__, "site": core.exc_site(ex)}
        recs.append(e)
        if "exc" in e:
            break
    return recs


def belongs(pid, clause):
    return any(fnmatch.fnmatchcase(clause, p) for p in CLAUSES[pid])


def run(pid, tier):
    rep = Report(pid, tier)
    core.import_repo()
    rng = random.Random(core.seed() * 7727 + 29)
    behs = []          # (cons, styles, rounds)
    if pid == "C07":
        shapes = [(CONS2, 4, 1)] if tier == "quick" else [(CONS2, 4, 1), (CONS2, 5, 1), (["c1", "c2", "c3"], 4, 1)]
        for cons, ncards, rounds in shapes:
            res = run_mc_collect(rep, f"MC SamplingMC {len(cons)} contests {ncards} cards {rounds} round", cons, ncards,
                                 rounds, ["redraw"], MC_INV["C07"], True, "Sampling.tla/redraw")
            behs += [(cons, b["styles"], b["rounds"]) for b in core.beh_lines(res)]
    else:
        shapes = [(CONS2, 4, 2), (CONS2, 3, 3)] if tier == "quick" else [(CONS2, 4, 3), (CONS2, 5, 2)]
        for cons, ncards, rounds in shapes:
            res = run_mc_collect(rep, f"MC SamplingMC redraw {ncards} cards {rounds} rounds", cons, ncards, rounds,
                                 ["redraw"], MC_INV["C10"], True, "Sampling.tla/redraw")
            behs += [(cons, b["styles"], b["rounds"]) for b in core.beh_lines(res)]
        cons, ncards, rounds = shapes[-1] if tier == "quick" else shapes[0]
        run_mc_collect(rep, f"MC SamplingMC continue {ncards} cards {rounds} rounds", cons, ncards, rounds,
                       ["continue"], MC_INV["C10"], False, "Sampling.tla/continue")
    rep.cov["exhaustive"] = True
    rep.cov["behaviours_generated"] = len(behs)
    behs_all = list(behs)
    rng.shuffle(behs_all)
    cap = 2500 if tier == "quick" else 40000
    if len(behs) > cap:
        rng.shuffle(behs)
        behs = behs[:cap]
    recs = []
    for k, (cons, styles, rounds) in enumerate(behs):
        recs += replay(f"b{k}", cons, styles, rounds, rng)
        if pid == "C10":     # the same history with every later round continued from the previous selection
            recs += replay(f"b{k}c", cons, styles, rounds, rng,
                           variant_override=lambda step, v: "redraw" if step == 1 else "continue")
    # beyond the bounds: random larger audits
    for k in range(60 if tier == "quick" else 1500):
        cons = ["c1", "c2", "c3"]
        n = rng.randint(6, 30)
        styles = [[c for c in cons if rng.random() < 0.5] for _ in range(n)]
        avail = {c: sum(1 for s in styles if c in s) for c in cons}
        # (C07: mostly one draw; sometimes the same card objects are drawn from again, from scratch, with revised sizes)
        nr = rng.choice([1, 1, 2, 3]) if pid == "C07" else rng.randint(2, 6)
        sizes = {c: 0 for c in cons}
        rounds = []
        for _ in range(nr):
            sizes = {c: rng.randint(sizes[c], avail[c]) for c in cons}
            rounds.append({"sizes": dict(sizes), "variant": "redraw"})
        recs += replay(f"r{k}", cons, styles, rounds, rng)
        if pid == "C10":
            recs += replay(f"r{k}c", cons, styles, rounds, rng,
                           variant_override=lambda step, v: "redraw" if step == 1 else "continue")
    rejects, stats = core.validate_traces("Trace_Sampling", recs)
    rep.add_trace_stats("Trace_Sampling", stats)
    byid = {r["tid"]: r for r in recs}
    bywalk = {}
    for r in recs:
        bywalk.setdefault(r["walk"], []).append(r)
    for tid, clauses in rejects.items():
        r = byid[tid]
        variant = r.get("variant", "init")
        for cl in clauses:
            if pid == "C07" and variant == "continue":
                continue
            if belongs(pid, cl):
                rep.violation(f"consistent_sampling/{variant}", cl,
                              f"round {tid} ({variant}, sizes {r.get('sizes')}): clause {cl}", bywalk[r["walk"]])
    for r in recs:
        rep.clause_count("event", not [c for c in rejects.get(r["tid"], []) if belongs(pid, c)])
    rep.sample(bywalk[recs[0]["walk"]])
    rep.sample(bywalk[recs[-1]["walk"]])
    if pid == "C10":
        # the documented workflow end to end (phantoms -> assertions -> margins -> rounds of sampling, lookup, data,
        # p-values, status), one event per call, validated against the composed specification
        from . import audit_run, poll_run
        audit_run.audit_run_part(rep, tier, rng, behs_all)
        poll_run.poll_run_part(rep, tier, rng)
    rep.assumptions += ["sample numbers are injected (256-bit integers increasing with the TLC-chosen rank); list positions "
                        "are a seeded permutation of the rank order",
                        "each card's manual record carries a value that identifies the card, so the data handed to a test "
                        "can be read back as card identities"]
    return rep.finish()
