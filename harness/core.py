"""Shared machinery: locating the code under test, running TLC (model checking, behaviour
generation, batch trace validation), known findings, evidence files, verdict/exit discipline.

Exit codes of a check: 0 = held on everything explored (KNOWN-FINDING lines allowed),
1 = at least one VIOLATION not listed in known_findings.json, 2 = the machinery itself failed.
"""
import hashlib
import json
import os
import re
import shutil
import subprocess
import sys
import tempfile
import time
from fractions import Fraction

VERIF = os.path.dirname(os.path.dirname(os.path.abspath(__file__)))
SPEC = os.path.join(VERIF, "spec")
REPO = os.environ.get("VERIF_REPO", "/repo")
OUT = os.path.join(VERIF, "out")
TLA_JAR = "/opt/veriftools/tla/tla2tools.jar"
TLA_CP = TLA_JAR + ":/opt/veriftools/tla/CommunityModules-deps.jar"
GUARD = "SHANGRLA_VERIF"


class MachineryError(Exception):
    """Something in the verification machinery failed (never reported as a violation)."""


def seed():
    try:
        return int(os.environ.get("VERIF_SEED", "0"))
    except ValueError:
        return 0


def import_repo():
    """Make `import shangrla` resolve to REPO's current working tree."""
    os.environ[GUARD] = "1"
    if REPO not in sys.path:
        sys.path.insert(0, REPO)
    for k in list(sys.modules):
        if k == "shangrla" or k.startswith("shangrla."):
            del sys.modules[k]
    import shangrla  # noqa: F401
    p = os.path.realpath(os.path.dirname(shangrla.__file__))
    if not p.startswith(os.path.realpath(REPO)):
        raise MachineryError(f"shangrla imported from {p}, not from {REPO}")


# ----------------------------------------------------------------------------- rationals
def rs(x):
    """Exact string "n/d" for an int, Fraction or float (floats are logged exactly).
    NaN / inf become tagged strings that no rational parser accepts."""
    import math
    if isinstance(x, bool):
        x = int(x)
    if isinstance(x, int):
        return f"{x}/1"
    if isinstance(x, Fraction):
        return f"{x.numerator}/{x.denominator}"
    try:
        xf = float(x)
    except Exception:
        return "bad:" + type(x).__name__
    if math.isnan(xf):
        return "nan"
    if math.isinf(xf):
        return "inf" if xf > 0 else "-inf"
    f = Fraction(xf)
    return f"{f.numerator}/{f.denominator}"


def fr(s):
    n, d = s.split("/")
    return Fraction(int(n), int(d))


# ----------------------------------------------------------------------------- TLC
_CACHE_SETUP = {}


def ensure_rat_class():
    cls = os.path.join(SPEC, "Rat.class")
    src = os.path.join(SPEC, "Rat.java")
    if not os.path.exists(cls) or os.path.getmtime(cls) < os.path.getmtime(src):
        r = subprocess.run(["javac", "-cp", TLA_JAR, "-d", SPEC, src], capture_output=True, text=True)
        if r.returncode != 0:
            raise MachineryError("javac Rat.java failed: " + r.stderr[-2000:])


class TLCResult:
    def __init__(self):
        self.rc = None
        self.out = ""
        self.generated = 0
        self.distinct = 0
        self.depth = 0
        self.coverage = {}      # action name -> (distinct, total)
        self.error = None       # text of the first TLC error, if any
        self.violated = None    # name of violated invariant / property, if any
        self.prints = []        # PrintT lines (strings as printed)
        self.wall = 0.0
        self.cex = ""           # counterexample text


def workdir(tag="w"):
    os.makedirs(OUT, exist_ok=True)
    return tempfile.mkdtemp(prefix=f"verif-{tag}-", dir=os.environ.get("VERIF_TMP", tempfile.gettempdir()))


def run_tlc(module, cfg_text, *, workers=16, env=None, extra=(), timeout=3600, coverage=False,
            wd=None, extra_files=(), heap=None, simulate=None, depth=None, keep=False, dfs=False):
    """Run TLC on spec/<module>.tla with the given cfg text.  Returns TLCResult."""
    ensure_rat_class()
    own = wd is None
    if own:
        wd = workdir(module)
    try:
        for f in os.listdir(SPEC):
            if f.endswith((".tla", ".class")):
                dst = os.path.join(wd, f)
                if not os.path.exists(dst):
                    os.symlink(os.path.join(SPEC, f), dst)
        for name, text in extra_files:
            with open(os.path.join(wd, name), "w") as fh:
                fh.write(text)
        cfgp = os.path.join(wd, f"{module}_run.cfg")
        with open(cfgp, "w") as fh:
            fh.write(cfg_text)
        java = ["java", "-XX:+UseParallelGC", f"-Djava.io.tmpdir={wd}"]      # (TLC's own temporary directories go with wd)
        java.append(f"-Xmx{heap or '4g'}")      # (the JVM's own default would be a quarter of the machine per process)
        if dfs:
            java.append("-Dtlc2.tool.queue.IStateQueue=StateDeque")
        cmd = java + ["-cp", TLA_CP, "tlc2.TLC", "-workers", str(workers), "-metadir", os.path.join(wd, "meta"),
                      "-noGenerateSpecTE", "-config", cfgp]
        if coverage:
            cmd += ["-coverage", "1"]
        if simulate:
            cmd += ["-simulate", simulate]
        if depth:
            cmd += ["-depth", str(depth)]
        cmd += list(extra) + [os.path.join(wd, module + ".tla")]
        e = dict(os.environ)
        if env:
            e.update(env)
        t0 = time.time()
        try:
            p = subprocess.run(cmd, capture_output=True, text=True, cwd=wd, env=e, timeout=timeout)
            out = p.stdout + p.stderr
            rc = p.returncode
        except subprocess.TimeoutExpired as ex:
            out = (ex.stdout.decode() if isinstance(ex.stdout, bytes) else (ex.stdout or "")) + "\nTLC TIMEOUT"
            rc = -9
        res = parse_tlc(out)
        res.rc = rc
        res.wall = time.time() - t0
        return res
    finally:
        if own and not keep:
            shutil.rmtree(wd, ignore_errors=True)


_RE_STATES = re.compile(r"(\d+) states generated, (\d+) distinct states found")
_RE_DEPTH = re.compile(r"The depth of the complete state graph search is (\d+)")
_RE_COV = re.compile(r"^<(\w+) line \d+, col \d+ to line \d+, col \d+ of module (\w+)(?: \([\d ]+\))?>: (\d+):(\d+)", re.M)
_RE_VIOL = re.compile(r"Error: (?:Invariant|Action property|Temporal properties) ?(\w+)? (?:is|were) violated")


def parse_tlc(out):
    r = TLCResult()
    r.out = out
    for m in _RE_STATES.finditer(out):
        r.generated, r.distinct = int(m.group(1)), int(m.group(2))
    m = _RE_DEPTH.search(out)
    if m:
        r.depth = int(m.group(1))
    for m in _RE_COV.finditer(out):      # several sub-actions may share a name (disjuncts of Next): add them up
        d0, t0 = r.coverage.get(m.group(1), (0, 0))
        r.coverage[m.group(1)] = (d0 + int(m.group(3)), t0 + int(m.group(4)))
    m = _RE_VIOL.search(out)
    if m:
        r.violated = m.group(1) or "property"
        r.cex = out[m.start():m.start() + 6000]
    if "Error:" in out and not r.violated:
        i = out.index("Error:")
        r.error = out[i:i + 3000]
    if "TLC TIMEOUT" in out:
        r.error = "TLC timeout"
    r.prints = [ln for ln in out.splitlines() if ln.startswith('"') or ln.startswith("<<")]
    return r


def tlc_ok(res, what):
    """Raise MachineryError unless TLC finished without error (violations are reported separately)."""
    if res.error:
        raise MachineryError(f"TLC failed on {what}: {res.error[:1500]}")
    if res.rc not in (0,) and not res.violated:
        raise MachineryError(f"TLC exit {res.rc} on {what}: {res.out[-1500:]}")


def require_actions(res, names, what):
    """vacuity guard: every named action of the specification must have been taken at least once"""
    for n in names:
        if n not in res.coverage:
            raise MachineryError(f"{what}: no coverage reported for action {n}")
        if res.coverage[n][1] == 0:
            raise MachineryError(f"{what}: action {n} was never taken - the properties that depend on it were not exercised")


def unquote(line):
    """PrintT of a string prints it as a TLA+ string literal; recover the text."""
    line = line.strip()
    if line.startswith('"') and line.endswith('"'):
        body = line[1:-1]
        return body.replace('\\"', '"').replace("\\\\", "\\")
    return line


def beh_lines(res, tag="BEH "):
    out = []
    for ln in res.prints:
        s = unquote(ln)
        if s.startswith(tag):
            out.append(json.loads(s[len(tag):]))
    return out


# ----------------------------------------------------------------------------- trace validation
def validate_traces(trace_module, records, *, cfg_consts="", batches=None, timeout=3600, label=""):
    """Validate records (list of JSON-able dicts, each with a unique 'tid') against
    spec/<trace_module>.tla.  The trace spec prints one line  REJ <json {tid, clauses:[..]}>  per
    rejected record and  ACC <n>  at the end.  Returns (rejects: {tid: [clauses]}, stats)."""
    if not records:
        return {}, {"records": 0, "states": 0, "transitions": 0, "wall": 0.0}
    nb = batches or min(16, max(1, len(records) // 300))
    # records of one walk (an execution whose records share specification state) stay together, in order
    walks = {}
    for rec in records:
        walks.setdefault(rec.get("walk", rec["tid"]), []).append(rec)
    chunks = [[] for _ in range(nb)]
    for w in sorted(walks.values(), key=len, reverse=True):
        min(chunks, key=len).extend(w)
    chunks = [c for c in chunks if c]
    wd = workdir(trace_module)
    procs = []
    try:
        for k, ch in enumerate(chunks):
            d = os.path.join(wd, f"b{k}")
            os.makedirs(d)
            tf = os.path.join(d, "trace.ndjson")
            with open(tf, "w") as fh:
                for rec in ch:
                    check_trace_types(rec)
                    fh.write(json.dumps(rec, separators=(",", ":")) + "\n")
            procs.append((d, tf, ch))
        from concurrent.futures import ThreadPoolExecutor
        cfg = f"SPECIFICATION TraceSpec\nPOSTCONDITION TraceAccepted\nCHECK_DEADLOCK FALSE\n{cfg_consts}\n"

        def one(item):
            d, tf, ch = item
            return run_tlc(trace_module, cfg, workers=1, env={"TRACE_FILE": tf}, wd=d, timeout=timeout,
                           heap="2g")
        with ThreadPoolExecutor(max_workers=min(16, len(procs))) as ex:
            results = list(ex.map(one, procs))
        rejects = {}
        stats = {"records": len(records), "states": 0, "transitions": 0, "wall": 0.0, "batches": len(procs)}
        for (d, tf, ch), res in zip(procs, results):
            if res.error or res.rc != 0:
                raise MachineryError(f"trace validation ({trace_module}{' ' + label if label else ''}) failed: "
                                     f"{(res.error or res.out[-1500:])[:2500]}")
            acc = None
            for ln in res.prints:
                s = unquote(ln)
                if s.startswith("REJ "):
                    j = json.loads(s[4:])
                    rejects[j["tid"]] = j["clauses"]
                elif s.startswith("ACC "):
                    acc = int(s[4:])
            if acc is None or acc != len(ch):
                raise MachineryError(f"trace validation ({trace_module}) consumed {acc} of {len(ch)} records")
            stats["states"] += res.distinct
            stats["transitions"] += res.generated
            stats["wall"] = max(stats["wall"], res.wall)
        return rejects, stats
    finally:
        shutil.rmtree(wd, ignore_errors=True)


def check_trace_types(x, path="$"):
    """The Json module silently reads floats and big ints as 0 and rejects null: forbid them."""
    if isinstance(x, bool) or isinstance(x, str):
        return
    if isinstance(x, int):
        if abs(x) >= 2 ** 31:
            raise MachineryError(f"trace field {path}: integer too large for TLC ({x})")
        return
    if isinstance(x, list):
        for i, v in enumerate(x):
            check_trace_types(v, f"{path}[{i}]")
        return
    if isinstance(x, dict):
        for k, v in x.items():
            if not isinstance(k, str):
                raise MachineryError(f"trace field {path}: non-string key {k!r}")
            check_trace_types(v, f"{path}.{k}")
        return
    raise MachineryError(f"trace field {path}: unsupported type {type(x).__name__} ({x!r})")


# ----------------------------------------------------------------------------- findings / verdicts
def load_known():
    p = os.path.join(VERIF, "known_findings.json")
    if not os.path.exists(p):
        return {"findings": [], "fixed": []}
    with open(p) as fh:
        return json.load(fh)


class Report:
    """Collects violations for one property check; matches them against known_findings.json."""

    def __init__(self, pid, tier):
        self.pid = pid
        self.tier = tier
        self.t0 = time.time()
        self.known = [f for f in load_known().get("findings", []) if f["property"] == pid]
        self.known_hit = {}
        self.violations = []     # (key, what, replay record(s))
        self.cov = {"states": 0, "transitions": 0, "traces_validated_against_impl": 0, "samples": [],
                    "runs": [], "clauses": {}, "constants": {}, "action_coverage": {}, "exhaustive": False}
        self.assumptions = []
        self.notes = []

    # key = "site|clause"  (site = configuration / call site; clause = failing clause incl. its input class)
    def violation(self, site, clause, what, replay):
        key = f"{site}|{clause}"
        import fnmatch
        for f in self.known:
            if f["key"] == key or fnmatch.fnmatchcase(key, f["key"]):
                self.known_hit.setdefault(f["key"], [f, 0, what])
                self.known_hit[f["key"]][1] += 1
                return
        self.violations.append((key, what, replay))

    # conformance results for parts of the system no listed property speaks about (DESIGN.md 9.7): recorded in the
    # evidence and printed, never a violation, never the exit code
    def observation(self, site, clause, what):
        o = self.cov.setdefault("extension_observations", {})
        e = o.setdefault(f"{site}|{clause}", {"cases": 0, "what": what})
        e["cases"] += 1

    def add_tlc(self, name, res, consts=None):
        self.cov["states"] += res.distinct
        self.cov["transitions"] += res.generated
        self.cov["runs"].append({"run": name, "distinct_states": res.distinct, "states_generated": res.generated,
                                 "depth": res.depth, "wall_s": round(res.wall, 2)})
        if consts:
            self.cov["constants"][name] = consts
        for a, (d, t) in res.coverage.items():
            self.cov["action_coverage"][f"{name}.{a}"] = {"distinct": d, "taken": t}

    def add_trace_stats(self, name, stats):
        self.cov["states"] += stats.get("states", 0)
        self.cov["transitions"] += stats.get("transitions", 0)
        self.cov["traces_validated_against_impl"] += stats.get("records", 0)
        self.cov["runs"].append({"run": name, **{k: (round(v, 2) if isinstance(v, float) else v)
                                                 for k, v in stats.items()}})

    def sample(self, s):
        if len(self.cov["samples"]) < 6:
            self.cov["samples"].append(s)

    def clause_count(self, clause, ok):
        c = self.cov["clauses"].setdefault(clause, {"accepted": 0, "rejected": 0})
        c["accepted" if ok else "rejected"] += 1

    def finish(self):
        evdir = os.environ.get("VERIF_EVIDENCE_DIR", os.path.join(VERIF, "evidence"))   # (seed tests write elsewhere)
        os.makedirs(evdir, exist_ok=True)
        os.makedirs(os.path.join(OUT, "replays"), exist_ok=True)
        rc = 0
        for key, (f, n, what) in sorted(self.known_hit.items()):
            print(f"KNOWN-FINDING: property={self.pid} {f['id']} {f['what']} [{n} case(s) in this run; key {key}]")
        for key, e in sorted(self.cov.get("extension_observations", {}).items()):
            print(f"OBSERVATION (outside the listed properties): {key} - {e['what']} [{e['cases']} case(s)]")
        grouped = {}
        for key, what, replay in self.violations:
            grouped.setdefault(key, []).append((what, replay))
        for key, items in sorted(grouped.items()):
            what, replay = items[0]
            h = hashlib.sha1((self.pid + key).encode()).hexdigest()[:10]
            path = os.path.join(OUT, "replays", f"{self.pid}-{h}.json")
            with open(path, "w") as fh:
                json.dump({"property": self.pid, "key": key, "what": what, "cases": len(items),
                           "replay": [r for _, r in items[:5]]}, fh, indent=1, default=str)
            print(f"VIOLATION property={self.pid} replay={path}")
            print(f"  key: {key}\n  what: {what}\n  cases: {len(items)}")
            rc = 1
        cov = self.cov
        cov["known_findings_matched"] = {k: v[1] for k, v in self.known_hit.items()}
        if not cov["samples"]:
            cov["samples"] = ["(no sample recorded)"]
        ev = {"property_id": self.pid, "tier": self.tier, "seed": seed(), "level": "model_checking",
              "coverage": cov, "assumptions": self.assumptions, "wall_s": round(time.time() - self.t0, 2),
              "violations": len(grouped)}
        if self.notes:
            ev["coverage"]["notes"] = self.notes
        with open(os.path.join(evdir, f"{self.pid}.json"), "w") as fh:
            json.dump(ev, fh, indent=1, default=str)
        print(f"{self.pid} [{self.tier}] states={cov['states']} transitions={cov['transitions']} "
              f"traces={cov['traces_validated_against_impl']} violations={len(grouped)} "
              f"known={len(self.known_hit)} wall={ev['wall_s']}s")
        return rc


def exc_site(exc):
    """Innermost shangrla/ frame of an exception's traceback: 'file.py:function'."""
    import traceback
    site = "?"
    for fs in traceback.extract_tb(exc.__traceback__):
        if "shangrla" in fs.filename.replace("\\", "/").split("/"):
            site = f"{os.path.basename(fs.filename)}:{fs.name}"
    return site


class CaseTimeout(Exception):
    pass


def with_time_limit(seconds, fn, *a, **k):
    """Run fn under a wall-clock limit (SIGALRM; main thread only)."""
    import signal

    def h(sig, frm):
        raise CaseTimeout()
    old = signal.signal(signal.SIGALRM, h)
    signal.setitimer(signal.ITIMER_REAL, seconds)
    try:
        return fn(*a, **k)
    finally:
        signal.setitimer(signal.ITIMER_REAL, 0)
        signal.signal(signal.SIGALRM, old)
