"""bin/check <Cxx> --replay <path>: re-validate the recorded execution(s) of a replay file against the
trace specification of that property and print the verdict (the recorded inputs and the code's
recorded outputs are in the file; the specification is the current one)."""
import json

from . import core

TRACE_MODULE = {
    "C01": "Trace_SeqTest", "C05": "Trace_SeqTest", "C11": "Trace_SeqTest", "C12": "Trace_SeqTest", "C13": "Trace_SeqTest",
    "C02": "Trace_Ballots", "C03": "Trace_Comparison", "C06": "Trace_Comparison", "C08": "Trace_Comparison",
    "C04": "Trace_Raire", "C14": "Trace_Raire", "C15": "Trace_Raire", "C07": "Trace_Sampling", "C10": "Trace_Sampling",
    "C09": "Trace_AuditFlow", "C16": "Trace_SampleSize", "C17": "Trace_Manifest", "C18": "Trace_Merge",
    "C19": "Trace_DominionImport", "C20": "Trace_ElimTree",
}
CONSTS = {"Trace_AuditFlow": "CONSTANTS\n  Configs = {}\n  PGrid = {}\n  HLens = {}\n"}


def flatten(x):
    out = []
    if isinstance(x, dict) and "tid" in x:
        out.append(x)
    elif isinstance(x, list):
        for y in x:
            out += flatten(y)
    return out


def run(pid, path):
    with open(path) as fh:
        d = json.load(fh)
    print(f"replay of {path}: property {d.get('property')} key {d.get('key')}\n  {d.get('what')}")
    if "counterexample" in json.dumps(d.get("replay"))[:200000] and not flatten(d.get("replay")):
        print("  (model-checking counterexample; re-run the check to reproduce it with TLC)")
        for r in d.get("replay", []):
            if isinstance(r, dict) and "counterexample" in r:
                print(r["counterexample"][:3000])
        return 1
    recs = flatten(d.get("replay"))
    # a trace may have been stored once per violating event: keep each record once, in order
    seen, uniq = set(), []
    for r in recs:
        if r["tid"] not in seen:
            seen.add(r["tid"])
            uniq.append(r)
    if pid == "C08" and uniq and "cvrs" in uniq[0] and "maxCards" in uniq[0]:
        mod = "Trace_Phantoms"
    elif uniq and uniq[0].get("act") == "prep":
        mod = "Trace_PollRun"
    elif uniq and uniq[0].get("act") == "phantoms":
        mod = "Trace_AuditRun"
    else:
        mod = TRACE_MODULE[pid]
    rejects, stats = core.validate_traces(mod, uniq, cfg_consts=CONSTS.get(mod, ""), batches=1)
    bad = 0
    for tid, cl in rejects.items():
        cl = [c for c in cl if c != "nocontext"]
        if cl:
            bad += 1
            print(f"  record {tid}: rejected, clauses {sorted(cl)}")
    print(f"  {len(uniq)} record(s) re-validated by TLC against {mod}: {bad} rejected")
    if bad:
        print(f"VIOLATION property={pid} replay={path}")
        return 1
    return 0
