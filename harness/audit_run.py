"""The documented workflow end to end (spec/Trace_AuditRun.tla): used by the thorough and quick tiers of C10
(escalation), and reported there - it composes what C03 C06 C07 C08 C09 C10 check module by module."""
import contextlib
import io
import warnings

from . import core, compare
from .core import rs

ASNS = ["W v L", "W v X"]


def vote_dict(v, rng):
    t = rng.choice([True, 1, "x"])
    return {"W": {"W": t}, "L": {"L": t}, "X": {"X": t}, "none": rng.choice([{}, {"W": 0}])}[v]


def replay(tid, cons, styles, rounds, rng, oneaudit=False):
    """one audit, from CVRs to the last round; returns the event records.
    oneaudit: some cards belong to tally pools (ONEAudit): padding first, pool means before the margins"""
    import numpy as np
    import pandas as pd
    from shangrla.core.Audit import Assertion, Audit, Contest, CVR
    from shangrla.core.NonnegMean import NonnegMean
    from shangrla.formats.Dominion import Dominion
    n = len(styles)
    styles = [set(s) for s in styles]
    for c in cons:                      # every contest under audit is on at least one card
        if not any(c in s for s in styles):
            styles[rng.randrange(n)].add(c)
    votes = [{c: rng.choice(["W", "W", "W", "L", "X", "none"]) for c in st} for st in styles]
    pools = [(rng.choice(["none", "none", "P1", "P2"]) if oneaudit else "none") for _ in range(n)]
    padded = oneaudit and rng.random() < 0.7
    max_cards = n + rng.choice([0, 1, 3])
    limit = 0.5
    recs = []
    cvrs = []
    for k, st in enumerate(styles):
        v = {c: dict(vote_dict(votes[k][c], rng)) for c in st}
        if rng.random() < 0.3:
            v["unaudited"] = {"Z": 1}
        pooled = pools[k] != "none"
        cvrs.append(CVR(id=f"1-1-{k}", votes=v, card_in_batch=k, tally_pool=(pools[k] if pooled else rng.choice([None, "Q"])),
                        pool=pooled))
    if padded:
        CVR.add_pool_contests(cvrs, CVR.pool_contests(cvrs))
    listing = {c: sum(1 for cv in cvrs if cv.has_contest(c)) for c in cons}
    bounds = {c: listing[c] + rng.choice([0, 0, 1, 2]) for c in cons}
    audit = compare.mk_audit(True, max_cards)
    contests = Contest.from_dict_of_dicts({c: {"name": c, "risk_limit": limit, "cards": bounds[c], "choice_function": "PLURALITY",
                                               "n_winners": 1, "candidates": ["W", "L", "X"], "winner": ["W"],
                                               "audit_type": (Audit.AUDIT_TYPE.ONEAUDIT if oneaudit else
                                                              Audit.AUDIT_TYPE.CARD_COMPARISON),
                                               "test": NonnegMean.alpha_mart,
                                               "estim": NonnegMean.fixed_alternative_mean, "use_style": True,
                                               "test_kwargs": {}} for c in cons})
    e = {"tid": f"{tid}:0", "walk": tid, "act": "phantoms", "cons": cons, "styles": [sorted(s) for s in styles],
         "bounds": bounds, "maxCards": max_cards, "pools": pools, "padded": padded}
    try:
        with warnings.catch_warnings():
            warnings.simplefilter("ignore")
            allc, n_ph = CVR.make_phantoms(audit=audit, contests=contests, cvr_list=cvrs, prefix="phantom-1-")
        e["out"] = {"styles": [sorted(x for x in c.votes if x in cons) for c in allc],
                    "phantom": [bool(c.phantom) for c in allc]}
    except Exception as ex:
        e["exc"] = {"type": type(ex).__name__, "site": core.exc_site(ex)}
        allc = cvrs
    tot = len(allc)
    perm = list(range(tot))
    rng.shuffle(perm)                          # perm[r] = list position of the card with rank r+1
    base = 2 ** 180 + rng.randrange(10 ** 9)
    for r, pos in enumerate(perm):
        allc[pos].sample_num = base + 11 * (r + 1)
    e["order"] = perm
    e["votes"] = [{c: (votes[k].get(c, "none") if k < n else "none") for c in cons} for k in range(tot)]
    recs.append(e)
    if "exc" in e:
        return recs
    # assertions and margins
    e = {"tid": f"{tid}:1", "walk": tid, "act": "margins"}
    try:
        with warnings.catch_warnings():
            warnings.simplefilter("ignore")
            Assertion.make_all_assertions(contests)
            audit.check_audit_parameters(contests)
            if oneaudit:
                for c in cons:
                    for a in ASNS:
                        contests[c].assertions[a].assorter.set_tally_pool_means(cvr_list=allc, use_style=True)
            Assertion.set_all_margins_from_cvrs(audit=audit, contests=contests, cvr_list=allc)
        e["out"] = {"margin": {c: {a: rs(contests[c].assertions[a].margin) for a in ASNS} for c in cons},
                    "u": {c: {a: rs(contests[c].assertions[a].test.u) for a in ASNS} for c in cons},
                    "pool_means": {c: {a: {str(p_): rs(v) for p_, v in
                                           (contests[c].assertions[a].assorter.tally_pool_means or {}).items()}
                                       for a in ASNS} for c in cons}}
    except Exception as ex:
        e["exc"] = {"type": type(ex).__name__, "site": core.exc_site(ex)}
    recs.append(e)
    if "exc" in e:
        return recs
    manifest = pd.DataFrame({"Tray #": ["1"], "Tabulator Number": ["1"], "Batch Number": ["1"], "Total Ballots": [n],
                             "VBMCart.Cart number": ["1"]})
    # what the manual record of each real card shows, fixed for the whole audit
    mvr_kind = []
    for k in range(tot):
        if k >= n:
            mvr_kind.append({c: "unfound" for c in cons})
        else:
            whole = rng.choice(["asis", "asis", "asis", "unfound", "vary"])
            d = {}
            for c in cons:
                if whole == "unfound":
                    d[c] = "unfound"
                elif c not in styles[k]:
                    # not on the card as scanned (it may be listed now through padding): the manual record lacks it or
                    # shows no vote
                    d[c] = rng.choice(["missing", "missing", "none"]) if allc[k].has_contest(c) else "missing"
                elif whole == "asis":
                    d[c] = votes[k][c]
                else:
                    d[c] = rng.choice(["W", "L", "X", "none", "missing"])
            mvr_kind.append(d)
    avail = {c: sum(1 for cv in allc if c in cv.votes) for c in cons}
    sizes = {c: 0 for c in cons}
    for step, rd in enumerate(rounds, start=2):
        sizes = {c: min(avail[c], max(sizes[c], int(rd["sizes"].get(c, 0)) + (step % 2))) for c in cons}
        e = {"tid": f"{tid}:{step}", "walk": tid, "act": "round", "sizes": dict(sizes), "limit": rs(core.fr("1/2")),
             "mvr": mvr_kind}
        try:
            with warnings.catch_warnings(), contextlib.redirect_stdout(io.StringIO()):
                warnings.simplefilter("ignore")
                for c in cons:
                    contests[c].sample_size = sizes[c]
                idx = [int(v) for v in core.with_time_limit(10, CVR.consistent_sampling, allc, contests)]
                cards, sample_order, cvr_sample, mvr_ph = Dominion.sample_from_cvrs(allc, manifest, np.array(idx, dtype=int))
                ph_by_id = {m.id: m for m in mvr_ph}
                mvr_sample = []
                for cv in cvr_sample:
                    if cv.phantom:
                        mvr_sample.append(ph_by_id[cv.id])
                        continue
                    k = int(cv.id.split("-")[2])
                    kinds = mvr_kind[k]
                    if all(v == "unfound" for v in kinds.values()):
                        mvr_sample.append(CVR(id=cv.id, votes={}, phantom=True))
                    else:
                        mvr_sample.append(CVR(id=cv.id, votes={c: dict(vote_dict(v, rng)) for c, v in kinds.items()
                                                                if v not in ("missing", "unfound")}))
                if rng.random() < 0.3:     # both lists in shelf (card id) order, paired but not in selection order
                    mvr_sample.sort(key=lambda c_: str(c_.id))
                    cvr_sample.sort(key=lambda c_: str(c_.id))
                else:
                    rng.shuffle(mvr_sample)
                CVR.prep_comparison_sample(mvr_sample, cvr_sample, sample_order)
                data, us = {}, {}
                for c in cons:
                    data[c], us[c] = {}, {}
                    for a in ASNS:
                        d, u = contests[c].assertions[a].mvrs_to_data(mvr_sample, cvr_sample)
                        data[c][a] = [rs(x) for x in d]
                        us[c][a] = rs(u)
                live = {c: contests[c] for c in cons if data[c][ASNS[0]]}
                if live:
                    Assertion.set_p_values(live, mvr_sample, cvr_sample)
                done = audit.summarize_status(contests)
            e["out"] = {"indices": idx, "thr": {c: (0 if contests[c].sample_threshold is None else
                                                    (int(contests[c].sample_threshold) - base) // 11) for c in cons},
                        "data": data, "u": us,
                        "p": {c: {a: rs(contests[c].assertions[a].p_value) for a in ASNS} for c in cons},
                        "proved": {c: {a: bool(contests[c].assertions[a].proved) for a in ASNS} for c in cons},
                        "done": bool(done)}
        except core.CaseTimeout:
            e["exc"] = {"type": "Timeout", "site": "Audit.py:consistent_sampling"}
        except Exception as ex:
            e["exc"] = {"type": type(ex).__name__, "site": core.exc_site(ex)}
        recs.append(e)
        if "exc" in e:
            break
    return recs


def audit_run_part(rep, tier, rng, behaviours):
    """behaviours: (cons, styles, rounds) triples generated by TLC (SamplingMC)"""
    recs = []
    cap = 700 if tier == "quick" else 8000
    for k, (cons, styles, rounds) in enumerate(behaviours[:cap]):
        recs += replay(f"e2e{k}", cons, [set(s) for s in styles], rounds, rng, oneaudit=(k % 3 == 2))
    cons3 = ["c1", "c2", "c3"]
    for k in range(60 if tier == "quick" else 1200):
        n = rng.randint(5, 24)
        styles = [{c for c in cons3 if rng.random() < 0.55} for _ in range(n)]
        rounds = [{"sizes": {c: rng.randint(0, n // 2) for c in cons3}} for _ in range(rng.randint(1, 5))]
        recs += replay(f"e2r{k}", cons3, styles, rounds, rng, oneaudit=(k % 2 == 1))
    rejects, stats = core.validate_traces("Trace_AuditRun", recs)
    rep.add_trace_stats("Trace_AuditRun (end to end)", stats)
    byid = {r["tid"]: r for r in recs}
    bywalk = {}
    for r in recs:
        bywalk.setdefault(r["walk"], []).append(r)
    for tid, clauses in rejects.items():
        r = byid[tid]
        for cl in clauses:
            rep.violation(f"workflow/{r['act']}", cl, f"event {tid} of the end-to-end workflow: clause {cl}", bywalk[r["walk"]])
    for r in recs:
        rep.clause_count("workflow-event", r["tid"] not in rejects)
    rep.sample(bywalk[recs[0]["walk"]])
