"""Checks C01 C05 C11 C12 C13 (shangrla.core.NonnegMean) - see DESIGN.md section 4."""
import fnmatch
import random
import re
import time
from concurrent.futures import ThreadPoolExecutor

from . import core, seqtest
from .core import Report

# model-checked formulas per property  (null-population runs, all-sample runs, temporal properties)
MC_FORMULAS = {
    "C01": (["FactorNonneg", "CondExpLeOne", "Ville"], [], []),
    "C05": (["StopOnlyLowers"], ["StopOnlyLowers"], ["NonAnticipating"]),
    "C11": (["WellFormed"], ["WellFormed"], []),
    "C12": (["AlphaEqualsBetting", "ConvInverse"], ["AlphaEqualsBetting", "ConvInverse"], ["Absorbing"]),
    "C13": ([], ["EstInRange", "ShrinkAboveNull", "FactorNonneg"], []),
}
# trace clauses per property
CLAUSES = {
    "C01": ["stat:*", "valid", "predictable:*"],   # validity needs the bet to be predictable
    "C05": ["predictable:*", "prefix:*"],
    "C11": ["exc:*", "len", "unit:*", "unitp:*", "overall:*"],
    "C12": ["stat:*", "exc:*", "conv:*", "equiv:*", "len", "rule:*"],
    "C13": ["range:*", "exc:*", "rule:*"],
}
ESTIMATOR_FUNCS = ("shrink_trunc", "agrapa", "fixed_alternative_mean", "optimal_comparison", "fixed_bet",
                   "welford_mean_var")


def clause_belongs(pid, clause):
    if pid == "C13" and clause.startswith("exc:"):
        return clause.split(":")[-1] in ESTIMATOR_FUNCS
    return any(fnmatch.fnmatchcase(clause, pat) for pat in CLAUSES[pid])


def parse_samples(res):
    out = set()
    for ln in res.prints:
        s = core.unquote(ln)
        if s.startswith("BEH "):
            out.add(tuple(core.fr(m) for m in re.findall(r'"(-?\d+/\d+)"', s)))
    return out


def dfs_order(samples):
    return sorted(samples, key=lambda xs: tuple(xs))   # lexicographic = a prefix before its extensions


def run(pid, tier):
    rep = Report(pid, tier)
    core.import_repo()
    rng = random.Random(core.seed() * 7919 + 17)
    cfgs = seqtest.configs(tier)
    null_inv, any_inv, props = MC_FORMULAS[pid]
    # exhaustive depth: the whole population when it is small, its first draws otherwise (longer samples: the walks)
    depth_of = lambda c: (5 if tier == "quick" else 6) if (c["N"] == 0 or c["N"] > 8) else c["N"]

    # ---- (S) model checking -------------------------------------------------------------------
    jobs = []
    for c in cfgs:
        if seqtest.spec_estim(c) == "other" or not c["ro"]:
            continue
        H = depth_of(c)
        if null_inv or (props and pid != "C13"):
            jobs.append((c, dict(horizon=H, any_sample=False, free=False, invariants=null_inv, props=props)))
        jobs.append((c, dict(horizon=H, any_sample=True, free=False, invariants=any_inv + ["EmitSample"],
                             props=props)))
    if pid in ("C01", "C12"):    # every predictable rule with values in the admissible range
        seen_free = set()
        for c in cfgs:
            fkey = (c["method"], c["N"] == 0, c["u"], c["t"])       # a free rule ignores eta / lam: one run per kind
            if c["estim"] in ("fixed", "fixedbet") and c["ro"] and c["u"] in (1, seqtest.F(9, 8)) and fkey not in seen_free:
                seen_free.add(fkey)
                fc = dict(c, name=c["name"].replace("fixed", "free"))
                H = 4 if tier == "quick" else 5
                if fc["N"]:
                    fc["N"] = H
                jobs.append((fc, dict(horizon=H, any_sample=False, free=True, invariants=null_inv, props=props)))

    def do(job):
        c, kw = job
        return job, seqtest.run_mc(c, workers=2, **kw)
    samples_by_key = {}
    jobs.sort(key=lambda j: (not j[1]["free"], j[0]["N"] != 0))       # the long runs (free rules, IID) start first
    with ThreadPoolExecutor(max_workers=12) as ex:
        for (c, kw), (failed, res, results, info) in ex.map(do, jobs):
            mode = ("any" if kw["any_sample"] else "null") + ("-free" if kw["free"] else "")
            for r in results:
                rep.add_tlc(f"MC {c['name']} {mode}", r, consts=info)
            for formula, cex in failed:
                rep.violation(seqtest.site_of(c) + ("/free" if kw["free"] else ""), f"mc:{formula}",
                              f"TLC: {formula} violated in SeqTestMC for {c['name']} ({mode})",
                              {"config": c["name"], "mode": mode, "formula": formula, "counterexample": cex[:4000]})
            if kw["any_sample"]:
                ss = set().union(*[parse_samples(r) for r in results])
                samples_by_key[(c["N"], c["u"])] = ss
                if not ss:
                    raise core.MachineryError(f"no behaviours generated for {c['name']}")
    rep.cov["exhaustive"] = True

    # ---- (B) conformance: TLC-generated samples -> code -> trace validation ---------------------
    recs = []
    for ci, c in enumerate(cfgs):
        ss = samples_by_key.get((c["N"], c["u"]))
        if ss is None:
            raise core.MachineryError(f"no generated samples for {c['name']}")
        recs += seqtest.code_records(c, dfs_order(ss), depth_of(c), f"c{ci}")
    # beyond the exhaustive bound: random long samples on a finer grid
    nwalk, length = (6, 40) if tier == "quick" else (10, 100)
    for ci, c in enumerate(cfgs):
        cc = dict(c)
        if cc["N"] and not cc.get("drive", {}).get("keepN"):
            # mostly large populations (no boundary convention in play), some small ones (null mean driven to 0 / u)
            cc["N"] = rng.choice([64, 64, 12, 20]) if tier == "quick" else rng.choice([256, 64, 12, 20, 30])
            cc["name"] += "-long"
        ss = seqtest.random_walk_samples(cc, rng, nwalk if c["ro"] else 2, length)
        # keep walks apart: one walk id per chain
        rr = seqtest.code_records(cc, ss, length, f"r{ci}")
        w = 0
        for r in rr:
            if len(r["x"]) == 1:
                w += 1
            r["walk"] = f"r{ci}:w{w}"
        recs += rr
    # non-dyadic observations (0.1, 0.3, 0.7, ... incl. long runs of one value): judged only by the range clauses (C13)
    # and the not-a-number / [0,1] clauses (C11) - float rounding at the conventions' boundaries is not a TLA+ matter
    if pid in ("C13", "C11"):
        ndvals = [0.1, 0.3, 0.6, 0.7, 0.2, 0.9]
        for ci, c in enumerate(cfgs):
            if c["estim"] not in ("shrink", "shrinkf", "agrapa", "agrapag", "fixed", "optcomp") or not c["ro"]:
                continue
            cc = dict(c, name=c["name"] + "-nd")
            if cc["N"]:
                cc["N"] = 40
            walks = []
            for w in range(3 if tier == "quick" else 12):
                v = rng.choice(ndvals) * float(c["u"])
                run = rng.randint(3, 9)
                xs = [seqtest.F(v)] * run + [seqtest.F(rng.choice(ndvals) * float(c["u"])) for _ in range(rng.randint(1, 6))]
                walks += [tuple(xs[:j]) for j in range(1, len(xs) + 1)]
            rr = seqtest.code_records(cc, walks, 20, f"n{ci}")
            w = 0
            for r in rr:
                if len(r["x"]) == 1:
                    w += 1
                r["walk"] = f"n{ci}:w{w}"
            recs += rr
    if pid == "C12":
        recs += seqtest.conv_records(rng, 0)
        small = {k: [s for s in v if len(s) >= 2] for k, v in samples_by_key.items()}
        recs += seqtest.equiv_records(small, tier)
    cfg_by_name = {}
    for c in cfgs:
        cfg_by_name[c["name"]] = c
        cfg_by_name[c["name"] + "-long"] = c
        cfg_by_name[c["name"] + "-nd"] = c
    rejects, stats = core.validate_traces("Trace_SeqTest", recs)
    rep.add_trace_stats("Trace_SeqTest", stats)
    byid = {r["tid"]: r for r in recs}
    for tid, clauses in rejects.items():
        r = byid[tid]
        if "nocontext" in clauses:
            raise core.MachineryError(f"trace record {tid} arrived without its prefix chain")
        nd = r.get("cfgname", "").endswith("-nd")
        for cl in clauses:
            if nd and not (cl.startswith("range:") or cl.startswith("unit:") or cl.startswith("unitp:") or cl.startswith("exc:")):
                continue
            if clause_belongs(pid, cl):
                site = r.get("site") or (seqtest.site_of(cfg_by_name[r["cfgname"]]) if r["cfgname"] in cfg_by_name
                                         else r["cfgname"])
                rep.violation(site, cl, f"{r['cfgname']}: clause {cl} rejected for x={r.get('x')}",
                              {k: v for k, v in r.items() if k != "cfg"} | {"cfg": r.get("cfg")})
    for r in recs:
        cls = rejects.get(r["tid"], [])
        mine = [c for c in cls if clause_belongs(pid, c)]
        rep.clause_count("record", not mine)
    for r in recs[:2] + recs[-2:]:
        rep.sample({k: r[k] for k in r if k != "cfg"})
    rep.sample({"generated_samples (TLC, first 5)": [[str(v) for v in s] for s in
                                                      dfs_order(next(iter(samples_by_key.values())))[:5]]})
    rep.assumptions += [
        "observations on dyadic grids (exact binary floats), so the code's tolerance windows coincide with exact tests",
        "Rat.class (BigInteger override) agrees with Rat.tla (checked by bin/setup)",
        "reported floats are compared with exact values within 1e-9 (absolute + relative)",
        "extension from the grid to all of [0,u] rests on the factor being affine in the observation",
    ]
    return rep.finish()
