"""Tabulation functions (spec/Tabulate.tla, TabulateMC.tla, Trace_Tabulate.tla): an extension beyond the listed
properties, run as part of C02's check; what it finds is reported as observations, never as violations."""
import warnings

from . import core

CONS = ["c1", "c2"]
CANDS = ["A", "B"]
TRUTHY = [True, 1, "x"]


def mc(maxcards):
    cfg = f"""CONSTANTS
  ConSet = {{"c1", "c2"}}
  CandSet = {{"A", "B"}}
  MaxCards = {maxcards}
INIT Init
NEXT Next
CHECK_DEADLOCK FALSE
INVARIANT StylesPartition
INVARIANT CardsFromStyles
INVARIANT VotesBounded
INVARIANT LeaderExists
INVARIANT ForcedBoundsHold
INVARIANT Emit
"""
    return core.run_tlc("TabulateMC", cfg, workers=8, timeout=1500, coverage=True)


def run_case(tid, cards, rng):
    from shangrla.core.Audit import Contest, CVR
    from . import compare
    cards = [dict(c) if isinstance(c, dict) else {} for c in cards]       # (an empty function arrives as an empty list)
    use_style = rng.random() < 0.5
    max_cards = len(cards) + rng.choice([0, 2])
    force = rng.random() < 0.5
    bounds = {c: rng.randint(0, len(cards) + 1) for c in CONS}
    rec = {"tid": tid, "cards": cards, "contests": CONS, "cands": CANDS, "use_style": use_style, "max_cards": max_cards,
           "force": force, "bounds": bounds}
    try:
        with warnings.catch_warnings():
            warnings.simplefilter("ignore")
            cvrs = []
            for k, c in enumerate(cards):
                votes = {}
                for con, marked in c.items():
                    votes[con] = {}
                    for cand in CANDS:
                        if cand in marked:
                            votes[con][cand] = rng.choice(TRUTHY)
                        elif rng.random() < 0.3:
                            votes[con][cand] = rng.choice([0, False, ""])
                cvrs.append(CVR(id=f"t{k}", votes=votes))
            tv = CVR.tabulate_votes(cvrs)
            ts = CVR.tabulate_styles(cvrs)
            tc = CVR.tabulate_cards_contests(cvrs)
            out = {"votes": {con: {cand: int(n) for cand, n in d.items()} for con, d in tv.items()},
                   "styles": [{"style": sorted(st), "count": int(n)} for st, n in ts.items()],
                   "cards_contests": {con: int(n) for con, n in tc.items()}}
            made = {}
            if cards and tv:
                audit = compare.mk_audit(use_style, max_cards)
                contests = Contest.from_cvr_list(audit, tv, tc, cvrs)
                for con, obj in contests.items():
                    made[str(con)] = {"winner": str(obj.winner[0]), "cards": int(obj.cards),
                                      "candidates": [str(x) for x in obj.candidates]}
            out["made"] = made
            cons = {c: Contest.from_dict({"id": c, "name": c, "cards": bounds[c]}) for c in CONS}
            try:
                Contest.check_cards(cons, cvrs, force=force)
                out["check"] = {"refused": False, "bounds": {c: int(cons[c].cards) for c in CONS}}
            except ValueError:
                out["check"] = {"refused": True, "bounds": {c: int(cons[c].cards) for c in CONS}}
            rec["out"] = out
    except Exception as ex:
        rec["exc"] = {"type": type(ex).__name__, "site": core.exc_site(ex)}
    return rec


def tabulate_part(rep, tier, rng):
    res = mc(2 if tier == "quick" else 3)
    rep.add_tlc("MC TabulateMC (extension)", res, consts={"ConSet": CONS, "CandSet": CANDS})
    if res.error:
        raise core.MachineryError(res.error[:2000])
    if res.violated:
        rep.observation("Tabulate.tla", f"mc:{res.violated}", f"TLC: {res.violated} violated on the tabulation specification")
    core.require_actions(res, ["AddCard"], "TabulateMC")
    recs = []
    for k, cards in enumerate(core.beh_lines(res)):
        recs.append(run_case(f"tb{k}", cards, rng))
    space = [{}] + [{c: list(m)} for c in CONS for m in ([], ["A"], ["B"], ["A", "B"])] + \
            [{"c1": list(m1), "c2": list(m2)} for m1 in ([], ["A"], ["B"]) for m2 in ([], ["A"], ["A", "B"])]
    for k in range(100 if tier == "quick" else 1500):
        recs.append(run_case(f"tr{k}", [rng.choice(space) for _ in range(rng.randint(3, 14))], rng))
    rejects, stats = core.validate_traces("Trace_Tabulate", recs)
    rep.add_trace_stats("Trace_Tabulate (extension)", stats)
    byid = {r["tid"]: r for r in recs}
    for tid, clauses in rejects.items():
        for cl in clauses:
            rep.observation("tabulation", cl, f"cards {byid[tid]['cards']}: clause {cl}")
    for r in recs:
        rep.clause_count("tabulation-record (extension)", r["tid"] not in rejects)
