"""The ballot-polling workflow end to end (spec/Trace_PollRun.tla): manifest preparation, margins from the reported
tally, then rounds of looking up the first n numbers of a random order, ordering the manual records by selection,
data, p-values and status.  Reported under C10 (escalation) - it composes what C02 C06 C09 C10 C17 check module by module."""
import contextlib
import io
import warnings

from . import core
from .core import rs

ASNS = ["W v L", "W v X"]


def vote_dict(v, rng):
    t = rng.choice([True, 1, "x"])
    return {"W": {"W": t}, "L": {"L": t}, "X": {"X": t}, "none": rng.choice([{}, {"W": 0}])}[v]


def replay(tid, vendor, sizes, bound, cons, ns, rng):
    import numpy as np
    import pandas as pd
    from shangrla.core.Audit import Assertion, Audit, Contest, CVR
    from shangrla.core.NonnegMean import NonnegMean
    from shangrla.formats.Dominion import Dominion
    from shangrla.formats.Hart import Hart
    from . import compare
    nb = len(sizes)
    if vendor == "Dominion":
        df = pd.DataFrame({"Tray #": [f"tray{k}" for k in range(nb)], "Tabulator Number": ["7"] * nb,
                           "Batch Number": [k + 1 for k in range(nb)], "Total Ballots": list(sizes),
                           "VBMCart.Cart number": [f"cart{k}" for k in range(nb)]})
        V, tabcol, batchcol = Dominion, "Tabulator Number", "Batch Number"
    else:
        df = pd.DataFrame({"Container": [f"box{k}" for k in range(nb)], "Tabulator": ["7"] * nb,
                           "Batch Name": [k + 1 for k in range(nb)], "Number of Ballots": list(sizes)})
        V, tabcol, batchcol = Hart, "Tabulator", "Batch Name"
    recs = []
    e = {"tid": f"{tid}:0", "walk": tid, "act": "prep", "vendor": vendor, "sizes": list(sizes), "bound": bound}
    try:
        with warnings.catch_warnings():
            warnings.simplefilter("ignore")
            try:
                man, mcards, phantoms = V.prep_manifest(df, bound, 0)
            except AssertionError:
                e["refused"] = True
                return [e]
        sizecol = "Total Ballots" if vendor == "Dominion" else "Number of Ballots"
        e["out"] = {"sizes": [int(float(x)) for x in man[sizecol]], "phantoms": int(phantoms)}
    except Exception as ex:
        e["exc"] = {"type": type(ex).__name__, "site": core.exc_site(ex)}
        return [e]
    recs.append(e)
    total = sum(e["out"]["sizes"])
    if total == 0:
        return recs
    rows = {(str(man.iloc[k][tabcol]), str(man.iloc[k][batchcol])): k + 1 for k in range(len(man))}
    # contests, reported tallies, margins
    limit = 0.5
    tally = {c: {"W": rng.randint(1, total), "L": rng.randint(0, total), "X": rng.randint(0, total)} for c in cons}
    cards = {c: max(1, bound) for c in cons}
    # each contest is tested with a seed-chosen shipped test (the risk must not rise whatever the test): ALPHA, or
    # Kaplan-Markov with and without padding (without it a ballot for the loser - a zero - pins the product)
    tests = {c: rng.choice([(NonnegMean.alpha_mart, 0.1), (NonnegMean.alpha_mart, 0.1), (NonnegMean.kaplan_markov, 0),
                            (NonnegMean.kaplan_markov, 0.1)]) for c in cons}
    contests = Contest.from_dict_of_dicts({c: {"name": c, "risk_limit": limit, "cards": cards[c], "choice_function": "PLURALITY",
                                               "n_winners": 1, "candidates": ["W", "L", "X"], "winner": ["W"],
                                               "audit_type": Audit.AUDIT_TYPE.POLLING, "test": tests[c][0],
                                               "estim": NonnegMean.fixed_alternative_mean, "use_style": False, "g": tests[c][1],
                                               "tally": dict(tally[c]), "test_kwargs": {}} for c in cons})
    audit = compare.mk_audit(False, max(1, bound))
    e = {"tid": f"{tid}:1", "walk": tid, "act": "margins", "cons": cons, "tally": tally, "cards": cards}
    try:
        with warnings.catch_warnings():
            warnings.simplefilter("ignore")
            Assertion.make_all_assertions(contests)
            for c in cons:
                contests[c].find_margins_from_tally()
        e["out"] = {"margin": {c: {a: rs(contests[c].assertions[a].margin) for a in ASNS} for c in cons}}
    except Exception as ex:
        e["exc"] = {"type": type(ex).__name__, "site": core.exc_site(ex)}
    recs.append(e)
    if "exc" in e:
        return recs
    valid = list(range(1, total + 1)) if vendor == "Dominion" else list(range(total))
    order = list(valid)
    rng.shuffle(order)
    # what the manual record of each card shows (by position 1..total in the prepared manifest), fixed for the audit
    mvr_kind = []
    for k in range(total):
        whole = rng.choice(["each", "each", "each", "unfound"])
        mvr_kind.append({c: ("unfound" if whole == "unfound" else rng.choice(["W", "W", "W", "L", "X", "none", "missing"]))
                         for c in cons})
    n = 0
    for step, want_n in enumerate(ns, start=2):
        n = min(total, max(n, int(want_n)))
        e = {"tid": f"{tid}:{step}", "walk": tid, "act": "pollround", "n": n, "order": order, "mvr": mvr_kind,
             "limit": rs(core.fr("1/2"))}
        try:
            with warnings.catch_warnings(), contextlib.redirect_stdout(io.StringIO()):
                warnings.simplefilter("ignore")
                sample = order[:n]
                form = [lambda v: v, lambda v: np.array(v, dtype=np.int64), lambda v: np.array(v, dtype=np.uint64)][n % 3]
                cards_l, sample_order, mvr_ph = V.sample_from_manifest(man, form(sample))
                ph_by_id = {m.id: m for m in mvr_ph}
                mvr_sample = []
                for cid, so in sample_order.items():
                    if cid in ph_by_id:
                        mvr_sample.append(ph_by_id[cid])
                        continue
                    s = sample[int(so["selection_order"])]
                    kinds = mvr_kind[s - 1 if vendor == "Dominion" else s]
                    if all(v == "unfound" for v in kinds.values()):
                        mvr_sample.append(CVR(id=cid, votes={}, phantom=True))
                    else:
                        mvr_sample.append(CVR(id=cid, votes={c: dict(vote_dict(v, rng)) for c, v in kinds.items()
                                                             if v not in ("missing", "unfound")}))
                rng.shuffle(mvr_sample)
                CVR.prep_polling_sample(mvr_sample, sample_order)
                out_cards = []
                for m in mvr_sample:
                    tab, batch, pos = str(m.id).rsplit("-", 2)
                    out_cards.append({"batch": rows.get((tab, batch), 0), "pos": int(pos)})
                data, us = {}, {}
                for c in cons:
                    data[c], us[c] = {}, {}
                    for a in ASNS:
                        d, u = contests[c].assertions[a].mvrs_to_data(mvr_sample, None)
                        data[c][a] = [rs(x) for x in np.atleast_1d(d)]
                        us[c][a] = rs(u)
                if n > 0:
                    Assertion.set_p_values(contests, mvr_sample, None)
                done = audit.summarize_status(contests)
            e["out"] = {"cards": out_cards, "phantom_mvrs": len(mvr_ph), "data": data, "u": us,
                        "p": {c: {a: rs(contests[c].assertions[a].p_value) for a in ASNS} for c in cons},
                        "proved": {c: {a: bool(contests[c].assertions[a].proved) for a in ASNS} for c in cons},
                        "done": bool(done)}
        except Exception as ex:
            e["exc"] = {"type": type(ex).__name__, "site": core.exc_site(ex)}
        recs.append(e)
        if "exc" in e:
            break
    return recs


def poll_run_part(rep, tier, rng):
    recs = []
    for k in range(150 if tier == "quick" else 2500):
        vendor = "Dominion" if k % 2 == 0 else "Hart"
        sizes = [rng.choice([0, 1, 2, 3, 5, 8]) for _ in range(rng.randint(1, 4))]
        bound = sum(sizes) + rng.choice([0, 0, 1, 3, -1])
        cons = ["c1", "c2"][: rng.randint(1, 2)]
        ns = sorted(rng.randint(0, sum(sizes) + 3) for _ in range(rng.randint(1, 5)))
        recs += replay(f"poll{k}", vendor, sizes, bound, cons, ns, rng)
    rejects, stats = core.validate_traces("Trace_PollRun", recs)
    rep.add_trace_stats("Trace_PollRun (polling workflow end to end)", stats)
    byid = {r["tid"]: r for r in recs}
    bywalk = {}
    for r in recs:
        bywalk.setdefault(r["walk"], []).append(r)
    for tid, clauses in rejects.items():
        r = byid[tid]
        for cl in clauses:
            rep.violation(f"polling-workflow/{r['act']}", cl, f"event {tid} of the polling workflow: clause {cl}", bywalk[r["walk"]])
    for r in recs:
        rep.clause_count("polling-workflow-event", r["tid"] not in rejects)
    rep.sample(bywalk[recs[0]["walk"]][:3])
