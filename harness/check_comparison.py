"""C03 (overstatement reduction), C06 (data within the bound), scoring half of C08."""
import fnmatch
import random
from fractions import Fraction as F

from . import core, compare
from .core import Report

US = [F(1), F(3, 4), F(3, 2)]
CLAUSES = {
    "C03": ["margin", "pool_mean", "B", "reduction", "exc:make_assertion:*", "exc:set_margin_from_cvrs:*",
            "exc:set_tally_pool_means:*", "exc:overstatement_assorter:*", "exc:add_pool_contests:*"],
    "C06": ["data", "bound", "installed", "installed:*", "range", "exc:mvrs_to_data:*", "exc:set_p_values:*", "exc:make_assertion:*", "exc:consistent_sampling:*"],
    "C08": ["worst", "exc:overstatement_assorter:*"],
}
MC_INV = {"C03": ["CvrLemma", "Reduction", "PaddingSound"], "C06": ["DataInBound"], "C08": ["PhantomWorstCase"]}


def mc(maxcards, invariants, emit=True, workers=16):
    mod = "MC_ComparisonRun"
    text = f"""---- MODULE {mod} ----
EXTENDS ComparisonMC
MC_Us == {{{", ".join(f'RParse("{u.numerator}/{u.denominator}")' for u in US)}}}
====
"""
    cfg = f"""CONSTANTS
  Us <- MC_Us
  MaxCards = {maxcards}
  Pools = {{"P1", "P2"}}
INIT Init
NEXT Next
CHECK_DEADLOCK FALSE
""" + "".join(f"INVARIANT {i}\n" for i in invariants) + ("INVARIANT Emit\n" if emit else "")
    return core.run_tlc(mod, cfg, workers=workers, extra_files=[(mod + ".tla", text)], timeout=3400, heap="8g", coverage=True)


def belongs(pid, clause):
    return any(fnmatch.fnmatchcase(clause, p) for p in CLAUSES[pid])


def comparison_part(pid, tier, rep, rng):
    maxcards = 2 if tier == "quick" else 3
    res = mc(maxcards, MC_INV[pid])
    rep.add_tlc("MC ComparisonMC", res, consts={"Us": [str(u) for u in US], "MaxCards": maxcards, "Pools": ["P1", "P2"]})
    if res.error:
        raise core.MachineryError(res.error[:2000])
    if res.violated:
        rep.violation("Comparison.tla", f"mc:{res.violated}", f"TLC: {res.violated} violated on the specification",
                      {"counterexample": res.cex[:4000]})
    behs = core.beh_lines(res)
    if not behs:
        raise core.MachineryError("no behaviours generated")
    rep.cov["exhaustive"] = True
    frac = {1: 1.0, 2: 0.25 if tier == "quick" else 1.0, 3: 0.06}
    recs = []
    k = 0
    for b in behs:
        cards, style, u = b["cards"], b["style"], core.fr(b["u"])
        n = len(cards)
        if style and all(c["cs"] == "x" for c in cards):
            continue
        if rng.random() > frac[n]:
            continue
        for kind in compare.kinds_for(u):
            if n >= 2 and kind in ("nen", "neb") and rng.random() > 0.5:
                continue
            thrs = range(n + 1) if (style and n <= 2) else ([n] if not style else sorted({0, n, rng.randint(0, n)}))
            for thr in thrs:
                recs.append(compare.run_case(f"c{k}", kind, u, style, cards, thr, rng))
                k += 1
            if pid == "C06" and not style:
                recs.append(compare.run_case(f"c{k}", kind, u, style, cards, n, rng, polling=True))
                k += 1
    # beyond the bound: random longer card lists
    cvr_types = [dict(cs=a, ph=False, pool=p) for a in "wlnx" for p in ("none", "P1", "P2")] + \
                [dict(cs=a, ph=True, pool=p) for a in "nx" for p in ("none", "P1")]
    nbig = 150 if tier == "quick" else 2500
    for j in range(nbig):
        n = rng.randint(4, 20)
        u = rng.choice(US)
        style = rng.random() < 0.5
        cards = [dict(rng.choice(cvr_types), ms=rng.choice("wlnxu")) for _ in range(n)]
        if style and all(c["cs"] == "x" for c in cards):
            continue
        kind = rng.choice(compare.kinds_for(u))
        recs.append(compare.run_case(f"r{j}", kind, u, style, cards, rng.randint(0, n), rng))
    # values exactly at the bound: a two-vote understatement (CVR for the loser, manual record for the winner) scores
    # exactly u for every margin - many margins (card counts) with assorter bounds other than 1
    for j in range(200 if tier == "quick" else 3000):
        n = rng.randint(8, 45)
        u = rng.choice([x for x in US if x != 1] or US)
        style = rng.random() < 0.5
        cards = [dict(cs=rng.choice("wwwln"), ph=False, pool="none", ms=rng.choice("wwlnx")) for _ in range(n)]
        cards[rng.randrange(n)] = dict(cs="l", ph=False, pool="none", ms="w")
        for c in cards:
            if c["ms"] == "x" and rng.random() < 0.5:
                c["ms"] = c["cs"]
        recs.append(compare.run_case(f"b{j}", rng.choice(compare.kinds_for(u)), u, style, cards, n, rng))
    rejects, stats = core.validate_traces("Trace_Comparison", recs)
    rep.add_trace_stats("Trace_Comparison", stats)
    byid = {r["tid"]: r for r in recs}
    for tid, clauses in rejects.items():
        r = byid[tid]
        for cl in clauses:
            if belongs(pid, cl):
                site = f"{r['kind']}/{'style' if r['style'] else 'nostyle'}/{r['audit']}"
                rep.violation(site, cl, f"cards {r['cards']} thr={r['thr']}: clause {cl}", r)
    for r in recs:
        rep.clause_count("record", not [c for c in rejects.get(r["tid"], []) if belongs(pid, c)])
    for r in recs[:1] + recs[len(recs) // 2: len(recs) // 2 + 1] + recs[-1:]:
        rep.sample(r)
    rep.assumptions += ["ballot classes w/l/n/x realised by seed-chosen concrete ballots of each assorter kind "
                        "(plurality, super-majority f=2/3 and 1/3, IRV not-eliminated-next and winner-only)",
                        "positions in the card list are the sample-number ranks; threshold = a position"]


def run(pid, tier):
    rep = Report(pid, tier)
    core.import_repo()
    rng = random.Random(core.seed() * 15485863 + 11)
    comparison_part(pid, tier, rep, rng)
    if pid == "C08":
        from . import phantoms, check_manifest
        phantoms.phantoms_part(tier, rep, rng)
        # the phantom batch of a prepared manifest and the phantom manual records of sampled phantom cards
        check_manifest.manifest_part(rep, tier, rng, want=["prep", "prep:*", "phantom_mvrs", "exc:*"])
    return rep.finish()
