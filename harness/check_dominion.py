"""C19: Dominion JSON import (spec/DominionImport.tla, DominionImportMC.tla, Trace_DominionImport.tla)."""
import json
import os
import random
import shutil
import tempfile
import warnings

from . import core
from .core import Report


def mc(mode, emit=True):
    cfg = f"""CONSTANTS
  Mode = "{mode}"
  Cands = {{"1", "2"}}
  Ranks = {{0, 1, 2}}
  MaxMarks = 3
INIT Init
NEXT Next
CHECK_DEADLOCK FALSE
""" + ("INVARIANT FoldIsValue\nINVARIANT MarkOrderIrrelevant\nINVARIANT UncountedIgnoredIffEnforced\n" if mode == "marks" else "") \
        + ("INVARIANT Emit\n" if emit else "")
    return core.run_tlc("DominionImportMC", cfg, workers=16, timeout=3000, heap="6g", coverage=True)


def mark_json(m, rng):
    return {"CandidateId": int(m["cand"]), "ManifestationId": rng.randint(1, 99), "PartyId": 0, "Rank": m["rank"],
            "MarkDensity": 80, "IsAmbiguous": False, "IsVote": bool(m["isvote"])}


def session_json(s, rng):
    """the export's JSON object for one abstract session, with the key order s['keys']"""
    d = {"TabulatorId": s["tab"], "BatchId": s["batch"],
         "RecordId": ("X" if s["rec"] == "X" else int(s["rec"])), "CountingGroupId": s["group"],
         "ImageMask": f"D:\\\\NAS\\\\Images\\\\{s['tab']:05d}_{s['batch']:05d}_{int(s['masknum']):06d}*.*",
         "SessionType": "ScannedVote"}

    def body(contests, current):
        cons = [{"Id": int(c["id"]), "Marks": [mark_json(m, rng) for m in c["marks"]]} for c in contests]
        if s["layout"] == "cards":
            half = (len(cons) + 1) // 2
            return {"IsCurrent": current, "Cards": [{"Id": 1, "Contests": cons[:half]}, {"Id": 2, "Contests": cons[half:]}]}
        return {"IsCurrent": current, "Contests": cons}
    # the IsCurrent flags are data the statement gives no role to: usually as the vendor writes them, sometimes not
    # (either value, or the key absent)
    usual = rng.random() < 0.6
    for k in s["keys"]:
        if k == "Original":
            d["Original"] = body(s["orig"], ("Modified" not in s["keys"]) if usual else rng.choice([True, False]))
        else:
            d["Modified"] = body(s["modi"], True if usual else rng.choice([True, False]))
        if not usual and rng.random() < 0.3:
            d[k].pop("IsCurrent")
    return d


def abstract_session(b, rng, n=0):
    """from a TLC session-mode behaviour to the record form of the trace"""
    s = b["sess"]
    orig = [{"id": "1", "marks": s["o1"]}, {"id": "2", "marks": s["o2"]}]
    modi = []
    if s["m1"]["has"]:
        modi.append({"id": "1", "marks": s["m1"]["marks"]})
    if s["m2"]["has"]:
        modi.append({"id": "2", "marks": s["m2"]["marks"]})
    if rng.random() < 0.5:
        orig.reverse()
    # consecutive sessions: same tabulator and successive batches, or the same batch number under successive tabulators
    same_batch = rng.random() < 0.5
    return {"tab": s["tab"] + (n if same_batch else 0), "batch": s["batch"] + (0 if same_batch else n), "rec": s["rec"],
            "masknum": str(100 + n), "group": s["group"],
            "layout": s["layout"], "keys": s["keys"], "orig": orig, "modi": modi if "Modified" in s["keys"] else []}


def run_export(tid, sessions, opts, rng, directory=False):
    from shangrla.formats.Dominion import Dominion
    rec = {"tid": tid, "opts": opts, "sessions": sessions}
    tmp = tempfile.mkdtemp(prefix="verif-dom-")
    try:
        box = [list, tuple, set][(len(sessions[0]["keys"] if sessions else []) + len(opts["include"]) + int(opts["enforce"])) % 3]   # any collection
        kw = dict(use_current=opts["useCurrent"], enforce_rules=opts["enforce"], include_groups=box(opts["include"]),
                  pool_groups=box(opts["pool"]))
        with warnings.catch_warnings():
            warnings.simplefilter("ignore")
            if directory and len(sessions) >= 2:
                for k, s in enumerate(sessions):
                    with open(os.path.join(tmp, f"CvrExport_{k}.json"), "w") as fh:
                        json.dump({"Version": "5.10", "ElectionId": "x", "Sessions": [session_json(s, rng)]}, fh)
                cvrs = Dominion.read_cvrs_directory(tmp, **kw)
            else:
                path = os.path.join(tmp, "CvrExport.json")
                with open(path, "w") as fh:
                    json.dump({"Version": "5.10", "ElectionId": "x", "Sessions": [session_json(s, rng) for s in sessions]}, fh)
                cvrs = Dominion.read_cvrs(path, **kw)
        out = []
        for c in cvrs:
            votes = {}
            for con, v in c.votes.items():
                votes[str(con)] = {str(k): (int(x) if not isinstance(x, bool) else int(x)) for k, x in v.items()}
            out.append({"id": str(c.id), "tpool": str(c.tally_pool), "pool": (c.pool if isinstance(c.pool, bool) else "non-boolean"),
                        "votes": votes})
        rec["out"] = out
        # the caller owns the records it was given: whatever it does to them afterwards (here: every votes dict is
        # written to) must not show up in a later import
        for c in cvrs:
            try:
                c.votes["~later"] = {"1": 1}
            except Exception:
                pass
    except Exception as ex:
        rec["exc"] = {"type": type(ex).__name__, "site": core.exc_site(ex)}
    finally:
        shutil.rmtree(tmp, ignore_errors=True)
    return rec


def regroup(sessions, opts):
    """the same export with counting groups numbered from 0 (a group id is a number like any other)"""
    for s_ in sessions:
        s_["group"] = s_["group"] - 1
    return dict(opts, include=[g - 1 for g in opts["include"]], pool=[g - 1 for g in opts["pool"]])


def run(pid, tier):
    rep = Report(pid, tier)
    core.import_repo()
    rng = random.Random(core.seed() * 3571 + 77)
    recs = []
    # slice (i): every mark sequence
    res = mc("marks")
    rep.add_tlc("MC DominionImportMC marks", res, consts={"Cands": ["1", "2"], "Ranks": [0, 1, 2], "MaxMarks": 3})
    if res.error:
        raise core.MachineryError(res.error[:2000])
    if res.violated:
        rep.violation("DominionImport.tla", f"mc:{res.violated}", f"TLC: {res.violated} violated", {"cex": res.cex[:3000]})
    k = 0
    for b in core.beh_lines(res):
        for enforce in (True, False):
            s = {"tab": 7, "batch": 2, "rec": str(40 + k % 50), "masknum": "9", "group": 1, "layout": rng.choice(["flat", "cards"]),
                 "keys": ["Original"], "orig": [{"id": "1", "marks": b["marks"]}], "modi": []}
            recs.append(run_export(f"m{k}", [s], {"useCurrent": True, "enforce": enforce, "include": [], "pool": []}, rng))
            k += 1
    # slice (ii): every session shape x option setting; pairs of consecutive behaviours make two-session exports
    res2 = mc("session")
    rep.add_tlc("MC DominionImportMC session", res2)
    if res2.error:
        raise core.MachineryError(res2.error[:2000])
    behs = core.beh_lines(res2)
    if not behs:
        raise core.MachineryError("no session behaviours generated")
    rep.cov["exhaustive"] = True
    rep.cov["session_behaviours_generated"] = len(behs)
    if tier == "quick":
        rng.shuffle(behs)
        behs = behs[:4000]
    for j, b in enumerate(behs):
        opts = {"useCurrent": b["opts"]["useCurrent"], "enforce": b["opts"]["enforce"],
                "include": sorted(b["opts"]["include"]), "pool": sorted(b["opts"]["pool"])}
        recs.append(run_export(f"s{j}", [abstract_session(b, rng)], opts, rng))
        if j % 3 == 0 and j + 1 < len(behs):
            two = [abstract_session(b, rng, 0), abstract_session(behs[j + 1], rng, 1)]
            recs.append(run_export(f"d{j}", two, regroup(two, opts) if j % 4 == 0 else opts, rng, directory=(j % 6 == 0)))
        if j % 7 == 0 and j + 2 < len(behs):
            # three sessions, the third from the same batch as the first (a batch's sessions need not be contiguous in the
            # file), sometimes with a session that carries no contest at all (a blank sheet)
            three = [abstract_session(b, rng, 0), abstract_session(behs[j + 1], rng, 1), abstract_session(behs[j + 2], rng, 2)]
            three[2].update(tab=three[0]["tab"], batch=three[0]["batch"], rec="X")
            if j % 14 == 0:
                three[rng.randrange(3)].update(orig=[], modi=[])
            recs.append(run_export(f"t{j}", three, regroup(three, opts) if j % 3 == 0 else opts, rng))
    # an export without sessions
    recs.append(run_export("z0", [], {"useCurrent": True, "enforce": True, "include": [], "pool": []}, rng))
    rejects, stats = core.validate_traces("Trace_DominionImport", recs,
                                          cfg_consts='CONSTANTS\n')
    rep.add_trace_stats("Trace_DominionImport", stats)
    byid = {r["tid"]: r for r in recs}
    for tid, clauses in rejects.items():
        r = byid[tid]
        for cl in clauses:
            ko = "+".join("/".join(s["keys"]) for s in r["sessions"])
            site = "Dominion.read_cvrs" + ("/Modified-first" if any(s["keys"][:1] == ["Modified"] for s in r["sessions"]) else "")
            rep.violation(site, cl, f"export {tid} (keys {ko}, opts {r['opts']}): clause {cl}", r)
    for r in recs:
        rep.clause_count("record", r["tid"] not in rejects)
    for r in recs[:1] + recs[-1:]:
        rep.sample(r)
    rep.assumptions += ["exports are serialised with json.dump in exactly the key order chosen by the specification",
                        "slice (i): every mark sequence of length <=3 over 2 candidates x ranks {0,1,2} x counted/not; "
                        "slice (ii): every single-session shape x option setting (a seeded 4,000 of them in the quick tier), "
                        "consecutive pairs as two-session exports and as two files of a directory"]
    return rep.finish()
