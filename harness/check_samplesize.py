"""C16: sample-size estimates (spec/SampleSize.tla, SampleSizeMC.tla, Trace_SampleSize.tla)."""
import random
import warnings
from fractions import Fraction as F

from . import core
from .core import Report, rs

ALPHA = F(1, 20)


def mc(mode, maxn):
    mod = "MC_SampleSizeRun"
    text = f"""---- MODULE {mod} ----
EXTENDS SampleSizeMC
MC_Pilot == {{RParse("0/1"), RParse("1/2"), RParse("1/1")}}
====
"""
    cfg = f"""CONSTANTS
  PilotVals <- MC_Pilot
  MaxPilot = 3
  MaxN = {maxn}
  MaxCount = 4
  Mode = "{mode}"
INIT Init
NEXT Next
CHECK_DEADLOCK FALSE
INVARIANT FirstCrossingIsC
INVARIANT PrefixDecides
INVARIANT TiledIsPeriodic
INVARIANT InterleaveCounts
INVARIANT Emit
"""
    return core.run_tlc(mod, cfg, workers=8, extra_files=[(mod + ".tla", text)], timeout=3000, coverage=True)


def hist_for(n, c):
    """the specification's history: 1 before c, exactly alpha at c, smaller after (c = 0: never crosses)"""
    return [ALPHA if (c and k == c) else (F(1, 100 * k) if (c and k > c) else F(1)) for k in range(1, n + 1)]


def stub_test(c_holder):
    """a test function for NonnegMean: records the population, returns the history for crossing position c_holder['c']"""
    def fn(self, x, **kw):
        import numpy as np
        c_holder["seen"].append([float(v) for v in x])
        h = np.array([float(v) for v in hist_for(len(x), c_holder["c"])])
        c = c_holder["c"]
        if c and (len(x) + c) % 2 == 1:
            # a history need not stay down (it does not when the sample is not taken to be in random order, and the
            # overall value is then its last entry): back to 1 two draws after the crossing
            h[c + 1:] = 1.0
            return float(h[-1]), h
        return float(min(h)), h
    return fn


def guard(rec, fn):
    try:
        with warnings.catch_warnings():
            warnings.simplefilter("ignore")
            rec["out"] = fn()
    except Exception as ex:
        rec["exc"] = {"type": type(ex).__name__, "site": core.exc_site(ex)}
    return rec


def case_tile(tid, x, N, c):
    from shangrla.core.NonnegMean import NonnegMean
    h = {"c": c, "seen": []}
    rec = {"kind": "tile", "tid": tid, "x": [rs(v) for v in x], "N": N, "c": c, "alpha": rs(ALPHA),
           "hist": [rs(v) for v in hist_for(N, c)]}

    def go():
        t = NonnegMean(test=stub_test(h), u=1, N=N, t=0.5)
        res = t.sample_size([float(v) for v in x], alpha=float(ALPHA), reps=None)
        return {"pop": [rs(v) for v in h["seen"][-1]], "result": int(res)}
    return guard(rec, go)


def case_prefix(tid, x, N, k, reps, quantile, seed):
    """prefix data that already cross at position k <= len(x): every simulation-based estimate is k"""
    from shangrla.core.NonnegMean import NonnegMean
    h = {"c": k, "seen": []}
    rec = {"kind": "prefix", "tid": tid, "x": [rs(v) for v in x], "N": N, "k": k, "reps": reps, "quantile": rs(F(quantile).limit_denominator(100)),
           "seed": seed, "alpha": rs(ALPHA)}

    def go():
        t = NonnegMean(test=stub_test(h), u=1, N=N, t=0.5)
        res = t.sample_size([float(v) for v in x], alpha=float(ALPHA), reps=reps, prefix=True, quantile=quantile, seed=seed)
        ok = all(p[:len(x)] == [float(v) for v in x] and len(p) == N for p in h["seen"])
        return {"result": int(res), "prefix_ok": bool(ok and len(h["seen"]) == reps)}
    return guard(rec, go)


def case_interleave(tid, ns, nm, nb, vals):
    from shangrla.core.Audit import Assertion
    small, med, big = vals
    rec = {"kind": "interleave", "tid": tid, "ns": ns, "nm": nm, "nb": nb}

    def go():
        x = Assertion.interleave_values(ns, nm, nb, small=small, med=med, big=big)
        name = {small: "s", med: "m", big: "b"}
        return {"seq": [name.get(float(v), "?") for v in x]}
    return guard(rec, go)


def mk_contest(audit_type, choice, N, risk, tally=None, share=None, use_style=False):
    from shangrla.core.Audit import Contest
    from shangrla.core.NonnegMean import NonnegMean
    return Contest.from_dict({"id": "con", "name": "con", "risk_limit": risk, "cards": N, "choice_function": choice,
                              "n_winners": 1, "share_to_win": share, "candidates": ["W", "L", "X"], "winner": ["W"],
                              "audit_type": audit_type, "test": NonnegMean.alpha_mart, "use_style": use_style,
                              "tally": tally})


def mk_assertion(con, N, h, upper=1, margin=None, loser="L"):
    from shangrla.core.Audit import Assertion, Assorter
    from shangrla.core.NonnegMean import NonnegMean
    t = NonnegMean(test=stub_test(h), u=1, N=N, t=0.5)
    a = Assertion(contest=con, winner="W", loser=loser,
                  assorter=Assorter(contest=con, assort=lambda c: (int(bool(c.get_vote_for("con", "W")))
                                                                   - int(bool(c.get_vote_for("con", loser))) + 1) / 2,
                                    upper_bound=upper), margin=margin, test=t)
    return a


def case_asn_comparison(tid, N, u, v, rate1, rate2, c, audit_type="CARD_COMPARISON"):
    h = {"c": c, "seen": []}
    step1 = int(1 / rate1) if rate1 else 0
    step2 = int(1 / rate2) if rate2 else 0
    rec = {"kind": "asn_comparison", "tid": tid, "N": N, "u": rs(u), "v": rs(v), "step1": step1, "step2": step2,
           "rate1": rs(F(rate1).limit_denominator(10 ** 6)), "rate2": rs(F(rate2).limit_denominator(10 ** 6)), "c": c,
           "alpha": rs(ALPHA), "hist": [rs(x) for x in hist_for(N, c)], "audit": audit_type}

    def go():
        con = mk_contest(audit_type, "PLURALITY", N, float(ALPHA))
        a = mk_assertion(con, N, h, upper=float(u), margin=float(v))
        res = a.find_sample_size(data=None, rate_1=rate1, rate_2=rate2, reps=None)
        return {"pop": [rs(x) for x in h["seen"][-1]], "result": int(res), "attr": int(a.sample_size)}
    return guard(rec, go)


def case_asn_polling(tid, N, n0, nbig, c):
    h = {"c": c, "seen": []}
    rec = {"kind": "asn_polling", "tid": tid, "N": N, "ns": n0, "nm": N - n0 - nbig, "nb": nbig, "c": c, "alpha": rs(ALPHA),
           "hist": [rs(x) for x in hist_for(N, c)]}

    def go():
        con = mk_contest("POLLING", "PLURALITY", N, float(ALPHA), tally={"W": nbig, "L": n0, "X": 0})
        a = mk_assertion(con, N, h, upper=1, margin=(nbig - n0) / N)
        res = a.find_sample_size(data=None, reps=None)
        name = {0.0: "s", 0.5: "m", 1.0: "b"}
        return {"seq": [name.get(float(x), "?") for x in h["seen"][-1]], "result": int(res), "attr": int(a.sample_size)}
    return guard(rec, go)


def case_raire_estimator(tid, N, mean, r1, r2, polling, tally=None, upper=1):
    """shangrla.raire.sample_estimator.sample_size: RAIRE's own front end to the same estimate.  It builds its test
    object itself, so the population it hands over is recorded by wrapping NonnegMean.sample_size for the duration of
    the call, and the history is what that very test object reports on that population."""
    import types
    from shangrla.core.NonnegMean import NonnegMean
    from shangrla.raire import sample_estimator
    v = 2 * F(mean) - 1
    step1 = int(1 / r1) if r1 else 0
    step2 = int(1 / r2) if r2 else 0
    if polling:
        tw, tl, to = tally
        rec = {"kind": "asn_polling", "tid": tid, "N": N, "ns": tl, "nm": to, "nb": tw, "alpha": rs(ALPHA), "audit": "RAIRE-estimator"}
    else:
        rec = {"kind": "asn_comparison", "tid": tid, "N": N, "u": rs(F(upper)), "v": rs(v), "step1": step1, "step2": step2,
               "alpha": rs(ALPHA), "audit": "RAIRE-estimator"}

    def go():
        seen = {}
        orig = NonnegMean.sample_size

        def spy(self, x, *a, **k):
            import numpy as np
            seen["x"] = np.array(x, dtype=float).copy()
            seen["obj"] = self
            return orig(self, x, *a, **k)
        NonnegMean.sample_size = spy
        try:
            args = types.SimpleNamespace(erate1=r1, erate2=r2, rlimit=float(ALPHA), reps=None, seed=1)
            tw, tl, to = tally if polling else (0, 0, 0)
            res = sample_estimator.sample_size(float(mean), tw, tl, to, args, N, upper_bound=upper, polling=polling)
        finally:
            NonnegMean.sample_size = orig
        hist = seen["obj"].test(seen["x"].copy())[1]
        rec["hist"] = [rs(h) for h in hist]
        if polling:
            name = {0.0: "s", 0.5: "m", 1.0: "b"}
            return {"seq": [name.get(float(x), "?") for x in seen["x"]], "result": int(res), "attr": int(res)}
        return {"pop": [rs(x) for x in seen["x"]], "result": int(res), "attr": int(res)}
    return guard(rec, go)


def case_asn_data(tid, x, N, c):
    h = {"c": c, "seen": []}
    rec = {"kind": "asn_data", "tid": tid, "x": [rs(v) for v in x], "N": N, "c": c, "alpha": rs(ALPHA),
           "hist": [rs(v) for v in hist_for(N, c)]}

    def go():
        import numpy as np
        con = mk_contest("CARD_COMPARISON", "PLURALITY", N, float(ALPHA))
        a = mk_assertion(con, N, h, margin=0.2)
        res = a.find_sample_size(data=np.array([float(v) for v in x]), reps=None)
        return {"pop": [rs(v) for v in h["seen"][-1]], "result": int(res)}
    return guard(rec, go)


def case_contest(tid, N, crossings, audit_type, use_style, rng):
    """a contest's estimate is the largest among its assertions"""
    from shangrla.core.Audit import CVR
    from . import compare
    rec = {"kind": "contest", "tid": tid, "N": N, "cross": [c if c else N for c in crossings], "audit": audit_type,
           "style": use_style}

    def go():
        con = mk_contest(audit_type, "PLURALITY", N, float(ALPHA), tally={"W": N - 1, "L": 1, "X": 0}, use_style=use_style)
        con.assertions = {}
        for k, c in enumerate(crossings):
            hh = {"c": c, "seen": []}
            con.assertions[f"a{k}"] = mk_assertion(con, N, hh, margin=0.2 + k / 10, loser=("L" if k % 2 == 0 else "X"))
        audit = compare.mk_audit(use_style, N)
        audit.error_rate_1, audit.error_rate_2, audit.reps = 0.25, 0, None
        cvrs = None
        if audit_type == "ONEAUDIT":
            cvrs = [CVR(id=f"c{j}", votes={"con": {"W": 1}}, tally_pool="P", pool=False, sample_num=j + 1) for j in range(N)]
        con.sample_size = rng.choice([None, 0, N, 2 * N])      # what an earlier estimate (other assumptions) left behind
        res = con.find_sample_size(audit=audit, mvr_sample=None, cvr_sample=cvrs)
        return {"result": int(res), "attr": int(con.sample_size)}
    return guard(rec, go)


def case_audit(tid, N, crossings_by_contest, rng):
    """Audit.find_sample_size over several contests: each contest's estimate is the largest among ITS assertions that
    are not yet confirmed; with or without style information, from assumed rates or from the data seen so far"""
    from shangrla.core.Audit import CVR
    from . import compare
    names = [f"k{j}" for j in range(len(crossings_by_contest))]
    style = rng.random() < 0.6
    with_data = (not style) or rng.random() < 0.4
    proved = [[rng.random() < 0.25 for _ in cr] for cr in crossings_by_contest]
    rec = {"kind": "audit", "tid": tid, "N": N, "cross": [[c if c else N for c in cr] for cr in crossings_by_contest],
           "proved": proved, "style": style, "with_data": with_data}

    def go():
        contests = {}
        for name, cr, pr in zip(names, crossings_by_contest, proved):
            con = mk_contest("CARD_COMPARISON", "PLURALITY", N, float(ALPHA), use_style=style)
            con.id = con.name = name
            con.assertions = {}
            for k, c in enumerate(cr):
                hh = {"c": c, "seen": []}
                a = mk_assertion(con, N, hh, margin=0.2 + k / 10, loser=("L" if k % 2 == 0 else "X"))
                a.proved = pr[k]
                con.assertions[f"a{k}"] = a
            con.sample_size = rng.choice([None, 0, N, 2 * N])
            contests[name] = con
        audit = compare.mk_audit(style, N)
        audit.error_rate_1, audit.error_rate_2, audit.reps = 0.25, 0, None
        # the first two cards list every contest (they are the cards seen so far when data are used); the others list any
        # non-empty subset; the last card may be a phantom
        listing = [list(names), list(names)] + [[n_ for n_ in names if rng.random() < 0.7] or [names[0]] for _ in range(N - 2)]
        phantom_last = rng.random() < 0.4
        cvrs = [CVR(id=f"c{j}", votes={n_: {"W": 1} for n_ in listing[j]}, sample_num=j + 1, sampled=(with_data and style and j < 2),
                    phantom=(phantom_last and j == N - 1)) for j in range(N)]
        kw = {}
        if with_data:       # two cards seen so far, no discrepancy
            for n_ in names:
                contests[n_].sample_threshold = 2
            kw = dict(mvr_sample=[CVR(id=f"c{j}", votes={n_: {"W": 1} for n_ in names}) for j in range(2)], cvr_sample=cvrs[:2])
        total = audit.find_sample_size(contests, cvrs=cvrs, **kw)
        rec["listing"] = [[names.index(n_) + 1 for n_ in ls] for ls in listing]
        rec["sampled"] = [bool(c.sampled) for c in cvrs]
        rec["phantom"] = [bool(c.phantom) for c in cvrs]
        rec["cards"] = [int(contests[n_].cards) for n_ in names]
        return {"sizes": [int(contests[n_].sample_size) for n_ in names], "total": int(total),
                "p": [rs(c.p) if c.p is not None else "unset" for c in cvrs]}
    return guard(rec, go)


def run(pid, tier):
    rep = Report(pid, tier)
    core.import_repo()
    rng = random.Random(core.seed() * 8191 + 3)
    maxn = 5 if tier == "quick" else 7
    recs = []
    k = 0
    for mode in ("tile", "interleave"):
        res = mc(mode, maxn)
        rep.add_tlc(f"MC SampleSizeMC {mode}", res, consts={"MaxN": maxn, "MaxPilot": 3, "MaxCount": 4})
        if res.error:
            raise core.MachineryError(res.error[:2000])
        if res.violated:
            rep.violation("SampleSize.tla", f"mc:{res.violated}", f"TLC: {res.violated} violated", {"cex": res.cex[:3000]})
        behs = core.beh_lines(res)
        if not behs:
            raise core.MachineryError(f"no {mode} cases generated")
        for b in behs:
            if b["kind"] == "tile":
                x = [core.fr(v) for v in b["x"]]
                recs.append(case_tile(f"t{k}", x, b["N"], b["c"]))
                if k % 3 == 0:
                    recs.append(case_asn_data(f"d{k}", x, b["N"], b["c"]))
                if b["c"] and b["c"] <= len(x):      # the prefix itself crosses at c
                    for reps, q, seed in ((1, 0.5, 1), (5, 0.9, 7), (3, 0.1, rng.randrange(10 ** 6))):
                        recs.append(case_prefix(f"p{k}-{reps}", x, b["N"], b["c"], reps, q, seed))
            else:
                recs.append(case_interleave(f"i{k}", b["ns"], b["nm"], b["nb"], rng.choice([(0, 0.5, 1), (0.1, 1, 2), (0, 0.5, 1.5)])))
                N = b["ns"] + b["nm"] + b["nb"]
                if b["nb"] > b["ns"]:
                    recs.append(case_asn_polling(f"q{k}", N, b["ns"], b["nb"], rng.randint(0, N)))
            k += 1
    rep.cov["exhaustive"] = True
    # comparison populations: margins, bounds, error rates
    for N in ((6, 9) if tier == "quick" else (6, 9, 12, 20)):
        for u, v in ((F(1), F(1, 5)), (F(1), F(1, 2)), (F(3, 2), F(2, 5)), (F(3, 4), F(1, 4))):
            for r1, r2 in ((0, 0), (0.5, 0), (0.25, 0), (0, 0.34), (0.34, 0.2), (0.001, 0), (1.0, 0.5)):
                for at in ("CARD_COMPARISON", "ONEAUDIT"):
                    recs.append(case_asn_comparison(f"a{k}", N, u, v, r1, r2, rng.randint(0, N), at))
                    k += 1
    # RAIRE's own front end (its own test object: ALPHA with the comparison-optimal / shrink-truncate estimator)
    for N in ((12, 40) if tier == "quick" else (12, 40, 64)):
        for mean in (F(11, 20), F(3, 5), F(3, 4)):
            for r1, r2 in ((0, 0), (0.25, 0), (0, 0.2), (0.34, 0.2), (0.1, 0.25), (0.5, 0.05)):
                recs.append(case_raire_estimator(f"re{k}", N, mean, r1, r2, False))
                k += 1
            nb = int(N * mean)
            ns = rng.randint(0, N - nb)
            recs.append(case_raire_estimator(f"re{k}", N, mean, 0, 0, True, tally=(nb, ns, N - nb - ns)))
            k += 1
    for j in range(40 if tier == "quick" else 400):
        N = rng.randint(3, 9)
        cr = [rng.randint(0, N) for _ in range(rng.randint(1, 3))]
        at = rng.choice(["CARD_COMPARISON", "POLLING", "ONEAUDIT"])
        recs.append(case_contest(f"c{j}", N, cr, at, rng.random() < 0.5, rng))
    for j in range(60 if tier == "quick" else 600):
        N = rng.randint(4, 9)
        crs = [[rng.randint(0, N) for _ in range(rng.randint(1, 3))] for _ in range(rng.randint(2, 3))]
        recs.append(case_audit(f"u{j}", N, crs, rng))
    # beyond the bound
    for j in range(60 if tier == "quick" else 1500):
        N = rng.randint(8, 60)
        x = [rng.choice([F(0), F(1, 2), F(1), F(3, 4), F(1, 4)]) for _ in range(rng.randint(2, 7))]
        if len(set(x)) == 1:
            x[0] = F(1, 8)
        recs.append(case_tile(f"rt{j}", x, N, rng.randint(0, N)))
        ns, nm, nb = rng.randint(0, 9), rng.randint(0, 9), rng.randint(1, 9)
        recs.append(case_interleave(f"ri{j}", ns, nm, nb, (0, 0.5, 1)))
    rejects, stats = core.validate_traces("Trace_SampleSize", recs)
    rep.add_trace_stats("Trace_SampleSize", stats)
    byid = {r["tid"]: r for r in recs}
    for tid, clauses in rejects.items():
        r = byid[tid]
        site = {"tile": "NonnegMean.sample_size", "prefix": "NonnegMean.sample_size/prefix", "interleave": "Assertion.interleave_values",
                "asn_comparison": "Assertion.find_sample_size/" + r.get("audit", "comparison"),
                "asn_polling": "Assertion.find_sample_size/" + r.get("audit", "POLLING"),
                "asn_data": "Assertion.find_sample_size/data", "contest": "Contest.find_sample_size/" + r.get("audit", ""),
                "audit": "Audit.find_sample_size"}[r["kind"]]
        if r["kind"] == "contest" and r.get("style"):
            site += "/style"
        for cl in clauses:
            if cl.startswith("ext:"):      # beyond the listed properties (per-card sampling probabilities): observation only
                rep.observation(site, cl, f"{r['kind']} record {tid}: clause {cl}")
            else:
                rep.violation(site, cl, f"{r['kind']} record {tid}: clause {cl}", r)
    for r in recs:
        rep.clause_count(r["kind"], r["tid"] not in rejects)
    seen_kinds = set()
    for r in recs:
        if r["kind"] not in seen_kinds and len(seen_kinds) < 5:
            seen_kinds.add(r["kind"])
            rep.sample(r)
    rep.assumptions += ["the test inside NonnegMean / Assertion is a stub returning a specification-chosen history whose first value "
                        "at or below the risk limit EQUALS the limit (so < vs <= is observable)",
                        "interleave_values is exercised with at least one large value (n_big >= 1), as every reported tally of an "
                        "assertion with positive margin has"]
    return rep.finish()
