"""Accounting half of C08: CVR.make_phantoms against spec/Phantoms.tla (PhantomsMC, Trace_Phantoms)."""
import copy
import warnings

from . import core, compare

CONS = ["c1", "c2"]
_CONTESTS = {}


def mc(maxcvrs, slack, cons):
    mod = "MC_PhantomsRun"
    text = f"""---- MODULE {mod} ----
EXTENDS PhantomsMC
MC_Cons == <<{", ".join('"%s"' % c for c in cons)}>>
====
"""
    cfg = f"""CONSTANTS
  Cons <- MC_Cons
  MaxCvrs = {maxcvrs}
  Slack = {slack}
INIT Init
NEXT Next
CHECK_DEADLOCK FALSE
INVARIANT Accounting
INVARIANT NoMoreThanLargestShortfall
INVARIANT OriginalsFirst
INVARIANT LoopAgrees
INVARIANT Emit
"""
    return core.run_tlc(mod, cfg, workers=16, extra_files=[(mod + ".tla", text)], timeout=3000, heap="6g", coverage=True)


def run_case(tid, cons, styles, bounds, max_cards, style, rng):
    from shangrla.core.Audit import CVR, Contest, Audit
    from shangrla.core.NonnegMean import NonnegMean
    excs = []
    pool = rng.random() < 0.3
    tpool = rng.choice(["P", "Q"]) if pool or rng.random() < 0.2 else "none"
    rec = {"tid": tid, "cons": cons, "cvrs": styles, "bounds": bounds, "maxCards": max_cards, "style": style,
           "pool": pool, "tpool": tpool, "excs": excs}
    cvrs = []
    for k, s in enumerate(styles):
        votes = {c: ({"A": 1} if rng.random() < 0.6 else {}) for c in s}
        if rng.random() < 0.3:
            votes["unaudited"] = {"Z": 1}
        cvrs.append(CVR(id=f"id-{k}", votes=votes, tally_pool=rng.choice([None, "T"]), pool=False))
    rec["ids"] = [c.id for c in cvrs]
    snapshot = [(c.id, copy.deepcopy(c.votes), c.phantom, c.pool, c.tally_pool) for c in cvrs]
    # Contest objects live as long as an audit does: the same objects are handed to make_phantoms case after
    # case (only the user-supplied card bound is set anew), so anything the function leaves on them is carried along
    contests = {}
    for c in cons:
        if c not in _CONTESTS:
            _CONTESTS[c] = Contest.from_dict({"id": c, "name": c, "risk_limit": 0.05, "cards": None,
                                              "choice_function": "PLURALITY", "n_winners": 1, "candidates": ["A", "B"],
                                              "winner": ["A"], "audit_type": Audit.AUDIT_TYPE.CARD_COMPARISON,
                                              "test": NonnegMean.alpha_mart, "use_style": style})
        contests[c] = _CONTESTS[c]
        contests[c].cards = None if bounds[c] < 0 else bounds[c]
        # a bound may arrive as a numpy integer (computed with numpy / pandas, or raised by Contest.check_cards)
        if bounds[c] >= 0 and rng.random() < 0.3:
            import numpy as np
            contests[c].cards = np.int64(bounds[c])
        contests[c].use_style = style
    audit = compare.mk_audit(style, max_cards)
    try:
        with warnings.catch_warnings():
            warnings.simplefilter("ignore")
            kw = {}
            if pool or tpool != "none":
                kw = dict(tally_pool=(None if tpool == "none" else tpool), pool=pool)
            # the dictionary's keys need not be the contest identifiers
            cdict = contests if rng.random() < 0.6 else {f"key:{c}": con for c, con in contests.items()}
            out, n_ph = CVR.make_phantoms(audit=audit, contests=cdict, cvr_list=cvrs, prefix="phantom-", **kw)
        n = len(cvrs)
        same = all(out[k] is cvrs[k] for k in range(min(n, len(out)))) and \
            [(c.id, c.votes, c.phantom, c.pool, c.tally_pool) for c in cvrs] == snapshot
        rec["out"] = {
            "styles": [sorted(x for x in c.votes.keys() if x in cons) for c in out],
            "ids": [str(c.id) for c in out],
            "phantom": [bool(c.phantom) for c in out],
            "pool": [bool(c.pool) for c in out],
            "tpool": ["none" if c.tally_pool is None else str(c.tally_pool) for c in out],
            "n_phantoms": int(n_ph), "originals_same": bool(same),
            "cards": {c: (-1 if contests[c].cards is None else int(contests[c].cards)) for c in cons},
            "ncvrs": {c: int(contests[c].cvrs) for c in cons},
        }
    except Exception as ex:
        excs.append({"field": "make_phantoms", "type": type(ex).__name__, "site": core.exc_site(ex)})
    return rec


def phantoms_part(tier, rep, rng):
    maxcvrs, slack = (2, 2) if tier == "quick" else (3, 3)
    res = mc(maxcvrs, slack, CONS)
    rep.add_tlc("MC PhantomsMC", res, consts={"Cons": CONS, "MaxCvrs": maxcvrs, "Slack": slack})
    if res.error:
        raise core.MachineryError(res.error[:2000])
    if res.violated:
        rep.violation("Phantoms.tla", f"mc:{res.violated}", f"TLC: {res.violated} violated on the specification",
                      {"counterexample": res.cex[:4000]})
    if not res.violated:
        core.require_actions(res, ["AddCvr", "FixBounds", "Block", "PerContest", "Finish"], "PhantomsMC")
    behs = core.beh_lines(res)
    if not behs:
        raise core.MachineryError("no phantom behaviours generated")
    recs = []
    for k, b in enumerate(behs):
        recs.append(run_case(f"ph{k}", CONS, b["cvrs"], b["bounds"], b["maxCards"], b["style"], rng))
    # beyond the bound: three contests, more records
    cons3 = ["c1", "c2", "c3"]
    for k in range(200 if tier == "quick" else 3000):
        n = rng.randint(0, 12)
        styles = [sorted(c for c in cons3 if rng.random() < 0.5) for _ in range(n)]
        listing = {c: sum(1 for s in styles if c in s) for c in cons3}
        mx = n + rng.randint(0, 6)
        bounds = {c: (-1 if rng.random() < 0.25 else listing[c] + rng.randint(0, 6)) for c in cons3}
        recs.append(run_case(f"phr{k}", cons3, styles, bounds, mx, rng.random() < 0.6, rng))
    rejects, stats = core.validate_traces("Trace_Phantoms", recs)
    rep.add_trace_stats("Trace_Phantoms", stats)
    byid = {r["tid"]: r for r in recs}
    for tid, clauses in rejects.items():
        r = byid[tid]
        for cl in clauses:
            rep.violation("CVR.make_phantoms/" + ("style" if r["style"] else "nostyle"), cl,
                          f"cvrs {r['cvrs']} bounds {r['bounds']} max {r['maxCards']}: clause {cl}", r)
    for r in recs:
        rep.clause_count("phantoms-record", r["tid"] not in rejects)
    rep.sample(recs[len(recs) // 3])
