"""C09: audit status bookkeeping (spec/AuditFlow.tla, AuditFlowMC.tla, Trace_AuditFlow.tla)."""
import contextlib
import io
import random
import warnings
from fractions import Fraction as F

from . import core
from .core import Report, rs

L1, L2 = F(1, 20), F(1, 10)
CONFIGS = [
    [("c1", L1)],
    [("c1", L1), ("c1", L1)],
    [("c1", L1), ("c2", L2)],
    [("c1", L1), ("c2", L2), ("c2", L2)],
    [("c2", L2), ("c1", L1), ("c2", L2)],
]
PGRID_Q = [F(0), F(1, 20), F(3, 50), F(1, 10), F(1)]
# (values a few parts in a million above each risk limit are exercised by the boundary behaviours added in run():
#  putting them into this grid made TLC's successor enumeration - (|grid| x |lengths|)^assertions per step - run out of memory)
PGRID_T = [F(0), F(1, 100), F(1, 20), F(3, 50), F(1, 10), F(1, 2), F(1)]


def tla_r(x):
    return f'RParse("{x.numerator}/{x.denominator}")'


def mc(configs, pgrid, depth, emit=True, simulate=None, workers=16, props=True):
    mod = "MC_AuditFlowRun"
    confs = ", ".join("<<" + ", ".join(f'[con |-> "{c}", lim |-> {tla_r(l)}]' for c, l in cf) + ">>" for cf in configs)
    text = f"""---- MODULE {mod} ----
EXTENDS AuditFlowMC
MC_Configs == {{{confs}}}
MC_PGrid == {{{", ".join(tla_r(x) for x in pgrid)}}}
====
"""
    cfg = f"""CONSTANTS
  Configs <- MC_Configs
  PGrid <- MC_PGrid
  HLens = {{2}}
  Depth = {depth}
INIT HInit
NEXT HNext
CHECK_DEADLOCK FALSE
INVARIANT MaxIsMax
INVARIANT DoneIff
INVARIANT ConfirmedMarked
INVARIANT ResetRestores
INVARIANT CompleteMeansAllProved
""" + ("PROPERTY ProvedSticky\n" if props and not simulate else "") + ("INVARIANT Emit\n" if emit else "")
    return core.run_tlc(mod, cfg, workers=workers, extra_files=[(mod + ".tla", text)], timeout=3400, heap="8g",
                        simulate=simulate, depth=(depth + 1 if simulate else None), coverage=not simulate)


class Stub:
    def __init__(self):
        self.u = None
        self.N = 100
        self.ret = (1.0, None)
        self.seen = None

    def test(self, d):
        import numpy as np
        self.seen = np.array(d, dtype=float).copy()
        return self.ret


def replay(tid, beh, rng):
    """execute one behaviour against real objects; returns the event records"""
    import numpy as np
    from shangrla.core.Audit import Assertion, Assorter, Audit, Contest, CVR
    conf = beh["conf"]
    recs = [{"tid": f"{tid}:0", "walk": tid, "act": "init", "conf": conf}]
    contests = {}
    asns = []
    for k, a in enumerate(conf):
        c = a["con"]
        if c not in contests:
            contests[c] = Contest.from_dict({"id": c, "name": c, "risk_limit": float(core.fr(a["lim"])), "cards": 100,
                                             "choice_function": "PLURALITY", "n_winners": 1, "candidates": ["A", "B"],
                                             "winner": ["A"], "audit_type": Audit.AUDIT_TYPE.POLLING, "use_style": False,
                                             "assertions": {}})
        val = (k + 1) / 16
        asn = Assertion(contest=contests[c], winner="A", loser=f"B{k}",
                        assorter=Assorter(contest=contests[c], assort=lambda cvr, v=val: v, upper_bound=1),
                        margin=0.1, test=Stub(), p_value=1, p_history=[], proved=False)
        contests[c].assertions[f"asn{k}"] = asn
        asns.append((c, f"asn{k}", asn, val))
    # dictionary order of contests as first met in conf
    mvrs = [CVR(id=f"m{j}", votes={c: {"A": 1} for c in contests}) for j in range(2)]
    audit = Audit()

    def project(extra):
        o = {"p": [rs(a.p_value) for _, _, a, _ in asns], "hlen": [len(a.p_history) for _, _, a, _ in asns],
             "proved": [bool(a.proved) for _, _, a, _ in asns],
             "maxp": {c: (rs(con.max_p) if getattr(con, "max_p", None) is not None else "unset")
                      for c, con in contests.items()},
             "cpv": [rs(contests[c].p_values[n]) if n in getattr(contests[c], "p_values", {}) else "unset"
                     for c, n, _, _ in asns],
             "cpr": [bool(contests[c].proved[n]) if n in getattr(contests[c], "proved", {}) else False
                     for c, n, _, _ in asns]}
        o.update(extra)
        return o
    for step, h in enumerate(beh["hist"], start=1):
        e = {"tid": f"{tid}:{step}", "walk": tid, "act": h["act"], "ps": h["ps"]}
        try:
            with warnings.catch_warnings(), contextlib.redirect_stdout(io.StringIO()):
                warnings.simplefilter("ignore")
                if h["act"] == "setp":
                    # the sample grows between rounds - in place, in the caller's own list object
                    if step > 1 and (step + len(conf)) % 2 == 0:
                        mvrs.append(CVR(id=f"m{len(mvrs)}", votes={c: {"A": 1} for c in contests}))
                    hists = []
                    for (c, n, a, val), ps in zip(asns, h["ps"]):
                        # the history a test returns need not have the returned p-value as its minimum or last
                        # entry (random_order=False, or a test of another design): first entry lower, last higher
                        pv = float(core.fr(ps["p"]))
                        hh = np.full(ps["n"], pv)
                        if ps["n"] >= 2:
                            hh[0], hh[-1] = pv / 2, min(1.0, pv + 0.25)
                        hists.append(hh)
                        a.test.ret = ((np.float64(pv) if (len(hists) + step) % 2 else float(pv)), hh)
                        a.test.seen = None
                    ret = Assertion.set_p_values(contests, mvrs, None)
                    e["post"] = project({"ret": rs(ret),
                                         "hist_same": [a.p_history is hh for (_, _, a, _), hh in zip(asns, hists)],
                                         "data_ok": [a.test.seen is not None and list(a.test.seen) == [val] * len(mvrs)
                                                     and a.test.u == 1 for _, _, a, val in asns]})
                elif h["act"] == "summarize":
                    ret = audit.summarize_status(contests)
                    e["post"] = project({"ret": "true" if ret else "false", "hist_same": [True] * len(asns),
                                         "data_ok": [True] * len(asns)})
                else:
                    ret = Assertion.reset_p_values(contests)
                    e["post"] = project({"ret": "true" if ret else "false", "hist_same": [True] * len(asns),
                                         "data_ok": [True] * len(asns)})
        except Exception as ex:
            e["exc"] = {"type": type(ex).__name__, "site": core.exc_site(ex)}
        recs.append(e)
    return recs


def run(pid, tier):
    rep = Report(pid, tier)
    core.import_repo()
    rng = random.Random(core.seed() * 6151 + 3)
    behs = []
    res = mc(CONFIGS, PGRID_Q, 2)
    rep.add_tlc("MC AuditFlowMC depth 2", res, consts={"configs": len(CONFIGS), "PGrid": [str(x) for x in PGRID_Q]})
    if res.error:
        raise core.MachineryError(res.error[:2000])
    if res.violated:
        rep.violation("AuditFlow.tla", f"mc:{res.violated}", f"TLC: {res.violated} violated", {"cex": res.cex[:3000]})
    core.require_actions(res, ["HNext"], "AuditFlowMC")
    b2 = core.beh_lines(res)
    rep.cov["behaviours_generated_depth2"] = len(b2)
    if tier == "quick":      # every behaviour of the small configurations, a seeded sample of the three-assertion ones
        small = [b for b in b2 if len(b["conf"]) <= 2]
        big = [b for b in b2 if len(b["conf"]) > 2]
        rng.shuffle(big)
        b2 = small + big[:3000]
    behs += b2
    rep.cov["exhaustive"] = True
    # longer behaviours by simulation (spec -> code beyond the exhaustive depth)
    num = 300 if tier == "quick" else 6000
    sim = mc(CONFIGS, PGRID_T, 5, simulate=f"num={num}", workers=4)
    if sim.error and "TLC TIMEOUT" not in sim.error:
        raise core.MachineryError(sim.error[:2000])
    rep.add_tlc("SIM AuditFlowMC depth 5", sim)
    bs = core.beh_lines(sim)
    rng.shuffle(bs)
    behs += bs[:num * 4]
    if tier == "thorough":
        res3 = mc(CONFIGS[:3], PGRID_Q, 3)
        rep.add_tlc("MC AuditFlowMC depth 3 (configs with <= 2 assertions)", res3)
        if res3.error:
            raise core.MachineryError(res3.error[:2000])
        if res3.violated:
            rep.violation("AuditFlow.tla", f"mc:{res3.violated}", f"TLC: {res3.violated} violated", {"cex": res3.cex[:3000]})
        b3 = core.beh_lines(res3)
        rng.shuffle(b3)
        behs += b3[:20000]
    if not behs:
        raise core.MachineryError("no behaviours generated")
    # the boundary the statement names, for every configuration: every p-value exactly at its contest's limit (complete),
    # and one assertion a few parts in a million above its limit with every other one at or below (not complete)
    def fs(x):
        return f"{x.numerator}/{x.denominator}"
    for cf in CONFIGS:
        conf = [{"con": c, "lim": fs(l)} for c, l in cf]
        at = [{"p": fs(l), "n": 2} for _, l in cf]
        behs.append({"conf": conf, "hist": [{"act": "setp", "ps": at}, {"act": "summarize", "ps": []}]})
        for a in range(len(cf)):
            for eps in (F(1, 2 ** 18), F(1, 2 ** 30)):
                ps = [dict(x) for x in at]
                ps[a] = {"p": fs(cf[a][1] * (1 + eps)), "n": 2}
                behs.append({"conf": conf, "hist": [{"act": "setp", "ps": ps}, {"act": "summarize", "ps": []}]})
    recs = []
    for k, b in enumerate(behs):
        recs += replay(f"b{k}", b, rng)
    rejects, stats = core.validate_traces("Trace_AuditFlow", recs,
                                          cfg_consts="CONSTANTS\n  Configs = {}\n  PGrid = {}\n  HLens = {}\n")
    rep.add_trace_stats("Trace_AuditFlow", stats)
    byid = {r["tid"]: r for r in recs}
    bywalk = {}
    for r in recs:
        bywalk.setdefault(r["walk"], []).append(r)
    for tid, clauses in rejects.items():
        r = byid[tid]
        for cl in clauses:
            rep.violation(f"Assertion.{r['act']}", cl, f"event {r['act']} of behaviour {r['walk']}: clause {cl}",
                          bywalk[r["walk"]])
    for r in recs:
        rep.clause_count("event", r["tid"] not in rejects)
    rep.sample(bywalk[recs[0]["walk"]])
    rep.sample(bywalk[recs[-1]["walk"]])
    rep.assumptions += ["tests are stubs returning the specification-chosen p-value and history (isolates the bookkeeping)",
                        "risk limits 1/20 and 1/10; p-values from a grid containing both limits, values between and beyond"]
    return rep.finish()
